//! A dictionary harvested from the sources under test (what a coverage-guided fuzzer gets from
//! the binary's string table): short lower-case string literals of the anemo crates, used as
//! candidate header names by checks that ask "can anything in a message influence ...".
use std::sync::OnceLock;

fn scan(dir: &std::path::Path, out: &mut std::collections::BTreeSet<String>) {
    let Ok(rd) = std::fs::read_dir(dir) else { return };
    for e in rd.flatten() {
        let p = e.path();
        if p.is_dir() {
            scan(&p, out);
        } else if p.extension().map_or(false, |x| x == "rs") {
            let Ok(s) = std::fs::read_to_string(&p) else { continue };
            let b = s.as_bytes();
            let mut i = 0;
            while i < b.len() {
                if b[i] == b'"' {
                    let start = i + 1;
                    let mut j = start;
                    while j < b.len() && b[j] != b'"' && b[j] != b'\n' && j - start <= 40 {
                        j += 1;
                    }
                    if j < b.len() && b[j] == b'"' {
                        let lit = &s[start..j];
                        if (3..=40).contains(&lit.len()) && lit.bytes().all(|c| c.is_ascii_lowercase() || c.is_ascii_digit() || c == b'-' || c == b'_') && lit.bytes().next().map_or(false, |c| c.is_ascii_lowercase()) {
                            out.insert(lit.to_string());
                        }
                        i = j + 1;
                        continue;
                    }
                }
                i += 1;
            }
        }
    }
}

/// Sorted, de-duplicated; read once per process from /repo's current working tree.
pub fn header_like_literals() -> &'static [String] {
    static L: OnceLock<Vec<String>> = OnceLock::new();
    L.get_or_init(|| {
        let mut set = std::collections::BTreeSet::new();
        for d in ["/repo/crates/anemo/src", "/repo/crates/anemo-tower/src"] {
            scan(std::path::Path::new(d), &mut set);
        }
        set.into_iter().collect()
    })
}
