use vh::core::Tier;

fn usage() -> ! {
    eprintln!("usage: vcheck <ID> quick|thorough | vcheck replay <file>");
    std::process::exit(2)
}

fn main() {
    vh::panics::install();
    if let Ok(filter) = std::env::var("VERIF_TRACE") {
        // debugging aid: VERIF_TRACE=anemo=trace,quinn=debug ./vcheck replay <file>
        let _ = tracing_subscriber::fmt().with_env_filter(tracing_subscriber::EnvFilter::new(filter)).with_writer(std::io::stderr).without_time().try_init();
    }
    let args: Vec<String> = std::env::args().skip(1).collect();
    if args.is_empty() {
        usage();
    }
    if args[0] == "replay" {
        let Some(path) = args.get(1) else { usage() };
        let body = std::fs::read_to_string(path).expect("read replay file");
        let v: serde_json::Value = serde_json::from_str(&body).expect("replay file is JSON");
        let property = v["property"].as_str().unwrap_or_default().to_string();
        let part = v["part"].as_str().unwrap_or_default().to_string();
        vh::core::crash::install(&property);
        match vh::props::replay(&property, &part, &v["case"]) {
            None => {
                eprintln!("unknown property/part {property}/{part}");
                std::process::exit(2);
            }
            Some(Ok(())) => {
                println!("replay: property {property} part {part} held");
                std::process::exit(0);
            }
            Some(Err((key, msg, hits))) => {
                println!("replay: key={key} hits={hits} {msg}");
                println!("VIOLATION property={property} replay={path}");
                std::process::exit(1);
            }
        }
    }
    if args[0] == "c08-child" {
        std::process::exit(vh::props::child(&args[1..]));
    }
    let tier = match args.get(1).map(|s| s.as_str()) {
        Some("thorough") => Tier::Thorough,
        Some("quick") | None => Tier::Quick,
        _ => usage(),
    };
    match vh::props::run(&args[0], tier) {
        Some(code) => std::process::exit(code),
        None => {
            eprintln!("unknown property {}", args[0]);
            std::process::exit(2);
        }
    }
}
