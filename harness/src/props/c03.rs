//! C03 — dialing with an expected identity only ever reaches that identity.

use crate::core::*;
use crate::simnet::adversary::{self as adv, Presented, SignerKind};
use crate::simnet::*;
use crate::{vensure, vfail};
use anemo::types::PeerEvent;
use anemo::PeerId;
use proptest::prelude::*;
use serde::{Deserialize, Serialize};
use std::collections::{BTreeSet, HashSet};
use std::sync::{Arc, Mutex};

#[derive(Clone, Debug, Serialize, Deserialize, PartialEq, Eq, Hash)]
pub struct Dial {
    pub from: u8,
    /// index of the address dialed (n = the impostor's address when there is one)
    pub to: u8,
    /// expected identity: None = plain connect; Some(i) = identity of node i (n = the impostor's own)
    pub expect: Option<u8>,
    pub start_ms: u16,
}

#[derive(Clone, Debug, Serialize, Deserialize, PartialEq, Eq, Hash)]
pub enum Impostor {
    /// answers with the certificate of node k replayed (signing with its own key)
    Replay(u8),
    /// answers with [own certificate, certificate of node k]
    OwnPlusReplay(u8),
    /// answers honestly under its own identity
    Own,
}

/// A known-peer entry with affinity High: node `from` is told that identity `claimed` lives at
/// address `addr` and keeps dialing it in the background (the dial names the identity).
#[derive(Clone, Debug, Serialize, Deserialize, PartialEq, Eq, Hash)]
pub struct Known {
    pub from: u8,
    pub addr: u8,
    pub claimed: u8,
}

#[derive(Clone, Debug, Serialize, Deserialize, PartialEq, Eq, Hash)]
pub struct Case {
    pub nodes: u8,
    pub impostor: Option<Impostor>,
    pub dials: Vec<Dial>,
    #[serde(default)]
    pub known: Vec<Known>,
    /// max_concurrent_connections on every node
    #[serde(default)]
    pub limit: Option<u8>,
    /// epilogue: this node vanishes without a word (crash: nothing is closed) and a new node with
    /// another identity takes over its address; nodes that still list the old one dial the address again
    #[serde(default)]
    pub takeover: Option<u8>,
    pub faults: Vec<FaultSeg>,
    pub fault_seed: u64,
    pub link_delay_ms: u8,
}

pub fn check(case: &Case, obs: &mut Obs) -> Result<(), Fail> {
    let case = case.clone();
    run_sim(case.fault_seed, case.link_delay_ms.max(1) as u64, |sim| async move {
        let n = case.nodes.clamp(2, 5);
        let mut nodes = Vec::new();
        let mut subs = Vec::new();
        for i in 0..n {
            let mut spec = NodeSpec::new(i);
            spec.config.max_concurrent_connections = case.limit.map(|l| l as usize);
            spec.config.connectivity_check_interval_ms = Some(250);
            spec.config.connection_backoff_ms = Some(100);
            spec.config.max_connection_backoff_ms = Some(300);
            let node = sim.node_with(spec)?;
            let (rx, snap) = node.net.subscribe().map_err(|e| Fail::Inconclusive(e.to_string()))?;
            vensure!(snap.is_empty(), "c03:fresh-network-has-peers", "a fresh network lists peers");
            subs.push(rx);
            nodes.push(node);
        }
        let z_seed = key_seed(177);
        let z_id = peer_id_of_seed(&z_seed);
        let z_addr = node_addr(n);
        let mut _z_ep = None;
        if let Some(kind) = &case.impostor {
            let own = Presented::honest(&z_seed, "simnet");
            let replay_of = |k: u8| adv::self_signed(&nodes[(k % n) as usize].spec.key, &["simnet".to_string()], adv::Validity::Valid);
            // NB: a node's certificate is public: anyone who ever shook hands with it has it. Building
            // it from the seed here only saves the capture round trip (byte-identical apart from the serial).
            let presented = match kind {
                Impostor::Own => own.clone(),
                Impostor::Replay(k) => Presented { chain: vec![replay_of(*k)], signer: SignerKind::Ed25519(z_seed) },
                Impostor::OwnPlusReplay(k) => Presented { chain: vec![own.chain[0].clone(), replay_of(*k)], signer: SignerKind::Ed25519(z_seed) },
            };
            let seen: adv::Recorded = Arc::new(Mutex::new(Vec::new()));
            let ep = adv::raw_endpoint(&sim.fabric, z_addr, Some(adv::server_config(&presented, false, seen, Arc::new(Mutex::new(Vec::new())))))
                .map_err(|e| Fail::Inconclusive(e.to_string()))?;
            let ep2 = ep.clone();
            tokio::spawn(async move {
                loop {
                    match adv::accept_and_ack(&ep2).await {
                        Ok(conn) => { tokio::spawn(async move { conn.closed().await; }); }
                        Err(e) if e == adv::ENDPOINT_CLOSED => return,
                        Err(_) => continue,
                    }
                }
            });
            _z_ep = Some(ep);
        }
        let has_z = case.impostor.is_some();
        let n_addr = n + has_z as u8;
        // identity actually holding the key at each address
        let identity = |a: u8| -> PeerId { if a < n { nodes[a as usize].id() } else { z_id } };
        // the impostor can only prove its own key, and only if its leaf certificate is its own
        let z_can_prove_own = matches!(case.impostor, Some(Impostor::Own) | Some(Impostor::OwnPlusReplay(_)));
        let addr_of = |a: u8| if a < n { nodes[a as usize].addr() } else { z_addr };

        sim.fabric.set_faults(case.faults.clone());
        let any_fault = case.faults.iter().any(|f| f.loss_pm > 0 || f.partition);
        // --- known-peer entries (background dials naming an identity)
        let mut known = Vec::new();
        for k in &case.known {
            let (from, to, claimed) = (k.from % n, k.addr % n_addr, k.claimed % n_addr);
            if from == to || claimed == from { continue; }
            nodes[from as usize].net.known_peers().insert(anemo::types::PeerInfo { peer_id: identity(claimed), affinity: anemo::types::PeerAffinity::High, address: vec![addr_of(to).into()] });
            known.push((from, to, identity(claimed)));
        }
        // --- run the dials
        let mut handles = Vec::new();
        let mut plan = Vec::new();
        for d in &case.dials {
            let from = d.from % n;
            let to = d.to % n_addr;
            if from == to {
                // a node dialing its own address reaches a holder of its own key: the general
                // clauses apply (returns its own identity, which is then in its connected set)
                obs.label("self-dial");
            }
            let expect = d.expect.map(|e| identity(e % n_addr));
            let net = nodes[from as usize].net.clone();
            let addr = addr_of(to);
            let start = d.start_ms as u64;
            plan.push((from, to, expect));
            handles.push(tokio::spawn(async move {
                sleep_ms(start).await;
                let r = match expect {
                    Some(e) => within(30_000, net.connect_with_peer_id(addr, e)).await,
                    None => within(30_000, net.connect(addr)).await,
                };
                // what the caller lists at the instant the call returns
                (r.map(|r| r.map_err(|e| e.to_string())), net.peers())
            }));
        }
        let mut results = Vec::new();
        for h in handles {
            results.push(h.await.map_err(|e| Fail::Inconclusive(format!("dial task: {e}")))?);
        }
        sleep_ms(if known.is_empty() { 300 } else { 1500 }).await;
        // every NewPeer each node has ever seen
        let mut ever: Vec<HashSet<PeerId>> = vec![HashSet::new(); n as usize];
        for (i, rx) in subs.iter_mut().enumerate() {
            while let Ok(ev) = rx.try_recv() {
                if let PeerEvent::NewPeer(p) = ev {
                    ever[i].insert(p);
                }
            }
        }
        // pairs that have a legitimate reason to be connected: some dial between them that names
        // nobody or names the identity really at that address
        let mut legit: BTreeSet<(u8, u8)> = BTreeSet::new();
        for (from, to, expect) in &plan {
            let ok = expect.map_or(true, |e| e == identity(*to)) && (*to < n || z_can_prove_own);
            if ok {
                legit.insert((*from, *to));
                legit.insert((*to, *from));
            }
        }
        let mut n_bg_mismatch = 0;
        for (from, to, claimed) in &known {
            if *claimed == identity(*to) && (*to < n || z_can_prove_own) {
                legit.insert((*from, *to));
                legit.insert((*to, *from));
            } else {
                n_bg_mismatch += 1;
            }
        }
        let raced_by_background = |from: u8, to: u8| known.iter().any(|(f, t, _)| (*f == from && *t == to) || (*f == to && *t == from));
        let (mut n_mismatch, mut n_ok, mut n_err) = (0, 0, 0);
        for ((from, to, expect), (res, listed_at_return)) in plan.iter().zip(results.iter()) {
            let me = &nodes[*from as usize];
            let truth = identity(*to);
            let mismatch = expect.map_or(false, |e| e != truth) || (*to >= n && !z_can_prove_own);
            if mismatch { n_mismatch += 1; }
            match res {
                Err(()) => vfail!("c03:dial-hang", "dial from node {from} to address {to} did not return within 30 virtual seconds"),
                Ok(Ok(p)) => {
                    n_ok += 1;
                    vensure!(*p == truth, "c03:wrong-identity-returned", "node {from} dialed address {to} (expecting {:?}) and got Ok({p}); the party holding the key there is {truth}", expect);
                    vensure!(!mismatch, "c03:mismatched-dial-succeeded", "node {from} dialed address {to} expecting {:?}; the key there is {truth}; the dial succeeded", expect);
                    vensure!(ever[*from as usize].contains(p) || listed_at_return.contains(p), "c03:not-in-connected-set", "node {from}: connect returned {p} but it was never in the caller's connected set (no NewPeer, not listed at return)");
                    let _ = me;
                }
                Ok(Err(e)) => {
                    n_err += 1;
                    vensure!(mismatch || any_fault || concurrent_same_target(&plan, *from, *to) || raced_by_background(*from, *to) || case.limit.is_some(), "c03:legit-dial-failed", "node {from} dialed address {to} expecting {:?} (truth {truth}) without faults and failed: {e}", expect);
                }
            }
        }
        // pairs with only mismatched dials between them never list, announce or serve each other
        for a in 0..n {
            for b in 0..n_addr {
                if a == b || legit.contains(&(a, b)) {
                    continue;
                }
                let other = identity(b);
                vensure!(!nodes[a as usize].net.peers().contains(&other), "c03:listed-after-mismatch", "node {a} lists {other} (address {b}) although no legitimate dial happened between them");
                vensure!(!ever[a as usize].contains(&other), "c03:announced-after-mismatch", "node {a} announced NewPeer({other}) although no legitimate dial happened between them");
                if b < n {
                    let ctl = Ctl { id: 9000 + a as u64 * 10 + b as u64, delay_ms: 0, status_idx: 0, resp_len: 1, resp_hdrs: 0, mode: 0 };
                    if let Ok(Ok(_)) = within(2_000, nodes[a as usize].net.rpc(other, ctl_request("/x", &[], &ctl, 30))).await {
                        vfail!("c03:served-after-mismatch", "node {a} got an RPC served by {other} although no legitimate dial happened between them");
                    }
                }
            }
            // the impostor's replayed identities never show up anywhere
            if let Some(Impostor::Replay(k)) | Some(Impostor::OwnPlusReplay(k)) = &case.impostor {
                let victim = nodes[(*k % n) as usize].id();
                let k = *k % n;
                if a != k && !legit.contains(&(a, k)) {
                    vensure!(!ever[a as usize].contains(&victim) && !nodes[a as usize].net.peers().contains(&victim), "c03:impostor-admitted", "node {a} lists/announced {victim}, whose certificate only the impostor replayed to it");
                }
            }
        }
        // --- epilogue: a silent takeover of an address
        if let Some(k) = case.takeover {
            let k = (k % n) as usize;
            let k_id = nodes[k].id();
            let k_addr = nodes[k].addr();
            let callers: Vec<usize> = (0..n as usize).filter(|c| *c != k && nodes[*c].net.peers().contains(&k_id)).collect();
            if !callers.is_empty() {
                sim.fabric.clear_faults();
                sim.fabric.detach(k_addr);
                let mut ws = NodeSpec::new(k as u8);
                ws.addr = k_addr;
                ws.key = key_seed(940 + k as u64);
                let w = sim.node_with(ws)?;
                for c in callers {
                    // the caller still lists the vanished node (its idle timeout has not passed); the address now belongs to W
                    match within(30_000, nodes[c].net.connect(k_addr)).await {
                        Ok(Ok(p)) => vensure!(p == w.id(), "c03:wrong-identity-returned", "node {c} dialed the address of node {k} after another party ({}) silently took it over: connect returned {p}{}", w.id(), if p == k_id { " - the identity of the node that is gone (answered from state left by the earlier connection)" } else { "" }),
                        Ok(Err(_)) => {}
                        Err(()) => vfail!("c03:dial-hang", "re-dial after the takeover did not return"),
                    }
                    match within(30_000, nodes[c].net.connect_with_peer_id(k_addr, k_id)).await {
                        Ok(Ok(p)) => vfail!("c03:mismatched-dial-succeeded", "node {c} dialed the taken-over address naming the node that is gone and got Ok({p}); the key there is {}", w.id()),
                        Ok(Err(_)) => {}
                        Err(()) => vfail!("c03:dial-hang", "pinned re-dial after the takeover did not return"),
                    }
                }
                obs.label("epilogue:address-taken-over-silently");
            }
        }
        sim.health()?;
        check_no_panics("during dials")?;
        obs.evals(plan.len() as u64);
        obs.label(format!("dials ok={} err={} mismatched={}", (n_ok > 0) as u8, (n_err > 0) as u8, (n_mismatch > 0) as u8));
        if has_z { obs.label("impostor-present"); }
        if n_bg_mismatch > 0 { obs.label("background-dial-to-address-of-another-identity"); }
        if case.limit.is_some() { obs.label("connection-limit-configured"); }
        let st = sim.fabric.stats();
        if n_mismatch > 0 || n_bg_mismatch > 0 || has_z || st.dropped_fault > 0 {
            obs.nontrivial(&case);
        }
        Ok(())
    })
}

/// several dials from the same node to the same address may race each other (tie-break closes one)
fn concurrent_same_target(plan: &[(u8, u8, Option<PeerId>)], from: u8, to: u8) -> bool {
    plan.iter().filter(|(f, t, _)| (*f == from && *t == to) || (*f == to && *t == from)).count() > 1
}

pub struct Dials;
impl Part for Dials {
    type Case = Case;
    fn name(&self) -> &'static str { "dials" }
    fn rule(&self) -> &'static str {
        "2-5 honest networks plus an optional impostor (raw QUIC endpoint answering at its own address with a replayed certificate of node k, with [own, replayed], or honestly); 1-8 dials connect(addr) / connect_with_peer_id(addr, e) with e equal or unequal to the identity at addr, generated start offsets 0-3 s (many equal => concurrent dials of one address with different expectations; late ones => dials made while already connected), 0-2 High-affinity known-peer entries claiming an identity at an address (background dials naming it, right or wrong), optionally max_concurrent_connections 0-2 on every node, loss bursts bounded to the first seconds; optionally an epilogue in which one node vanishes silently, another identity takes over its address and the nodes that still list the old one dial the address again (named and unnamed); oracle: Ok(p) => p == key holder at addr (== e if given) and p was in the caller's connected set (NewPeer seen or listed at return); identity(addr) != e => Err; pairs with only mismatched dials between them never list, announce or serve each other; a replayed identity never shows up; Err always allowed under loss, with a connection limit, or when dials race; self-dials included (the node reached is the dialer itself); non-trivial = a mismatched explicit or background dial, an impostor, or a lost handshake datagram; distinct by case"
    }
    fn strategy(&self, _t: Tier) -> BoxedStrategy<Case> {
        let dial = (0u8..5, 0u8..6, prop::option::weighted(0.7, 0u8..6), prop_oneof![3 => Just(0u16), 2 => 0u16..10, 2 => 10u16..400, 1 => 400u16..3000])
            .prop_map(|(from, to, expect, start_ms)| Dial { from, to, expect, start_ms });
        let imp = prop_oneof![2 => Just(None), 2 => (0u8..5).prop_map(|k| Some(Impostor::Replay(k))), 1 => (0u8..5).prop_map(|k| Some(Impostor::OwnPlusReplay(k))), 1 => Just(Some(Impostor::Own))];
        let fault = (0u64..300, 50u64..1500, 50u16..500).prop_map(|(t0, len, loss_pm)| FaultSeg { t0_ms: t0, t1_ms: t0 + len, loss_pm, ..Default::default() });
        let known = (0u8..5, 0u8..6, 0u8..6).prop_map(|(from, addr, claimed)| Known { from, addr, claimed });
        let known = prop_oneof![3 => Just(Vec::new()), 2 => prop::collection::vec(known, 1..3)];
        let limit = prop_oneof![4 => Just(None), 1 => (0u8..3).prop_map(Some)];
        (2u8..6, imp, prop::collection::vec(dial, 1..9), prop::collection::vec(fault, 0..2), any::<u64>(), 1u8..25, known, limit, prop::option::weighted(0.3, 0u8..5))
            .prop_map(|(nodes, impostor, dials, faults, fault_seed, link_delay_ms, known, limit, takeover)| Case { nodes, impostor, dials, known, limit, takeover, faults, fault_seed, link_delay_ms })
            .boxed()
    }
    fn run(&self, c: &Case, obs: &mut Obs) -> Result<(), Fail> { check(c, obs) }
}

pub fn run(tier: Tier) -> i32 {
    let mut ctx = Ctx::new("C03", tier);
    ctx.assume("the impostor holds only its own key; a node's certificate is public, so replaying it needs nothing else");
    ctx.assume("Err is always an allowed outcome under loss or when several dials between the same two nodes race each other");
    ctx.run_part(Dials, tier.pick(5_000, 300_000));
    ctx.finish()
}
