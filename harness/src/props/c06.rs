//! C06 — a connected hostile peer cannot crash or stall the network.

use crate::core::*;
use crate::refmodel::wire as rw;
use crate::simnet::adversary::{self as adv, Presented};
use crate::simnet::recorder::expected_response;
use crate::simnet::*;
use crate::{vensure, vfail};
use anemo::Router;
use bytes::Bytes;
use proptest::prelude::*;
use serde::{Deserialize, Serialize};
use std::collections::{HashMap, VecDeque};
use std::sync::{Arc, Mutex};
use std::time::Duration;

pub const ROUTES: [&str; 3] = ["/exact", "/wild/a/b", "/svc.Name/method"];

#[derive(Clone, Debug, Serialize, Deserialize, PartialEq, Eq, Hash)]
pub enum Payload {
    Random(#[serde(with = "crate::hexbytes")] Vec<u8>),
    /// a valid request with byte mutations (offset, xor)
    Mutated(Vec<(u16, u8)>),
    /// a valid request cut at this offset (scaled)
    Truncated(u16),
    /// the first n bytes of a valid request (cuts inside the 8-byte preamble and the first length prefix)
    Prefix(u8),
    /// first (header) or second (body) frame length overwritten
    HugeLen { second: bool, len: u32 },
    /// valid preamble, frame whose bincode header announces absurd lengths / invalid UTF-8
    HostileHeader(u8),
    /// a well-formed request with this route (may be odd) and a `timeout` header value
    OddRequest { route: String, timeout: Option<String>, body_len: u16 },
    Empty,
}

#[derive(Clone, Debug, Serialize, Deserialize, PartialEq, Eq, Hash)]
pub enum Ending {
    Finish,
    Reset(u8),
    /// stop the response side, then finish
    StopResponse(u8),
    /// keep the stream open (unfinished) until the end of the case
    HoldOpen,
    /// finish and read the response
    FinishAndRead,
}

#[derive(Clone, Debug, Serialize, Deserialize, PartialEq, Eq, Hash)]
pub enum Resp {
    Junk(#[serde(with = "crate::hexbytes")] Vec<u8>),
    Truncated(u16),
    UnknownStatus(u16),
    Oversized,
    Reset,
    Never,
    Valid,
}

#[derive(Clone, Debug, Serialize, Deserialize, PartialEq, Eq, Hash)]
pub enum Action {
    Stream(Payload, Ending),
    /// n streams opened at once with the same payload, all held open
    Burst(u8, Payload),
    Uni(u16),
    /// a uni stream carrying the first n bytes of anemo's preamble, neither finished nor reset
    UniHeld(u8),
    Datagram(u16),
    /// a well-formed request from Z on a registered route: must be answered correctly
    WellFormed(u8, u16),
    /// honest traffic between H and V (true: H calls V): must succeed
    Honest(bool),
    /// V calls Z; Z answers like this; the call must return
    VCallsZ(Resp),
    /// V dials a second hostile endpoint that completes TLS but misbehaves in anemo's
    /// acknowledgement: 0 never acknowledges, 1 wrong preamble, 2 junk + reset, 3 closes at once,
    /// 4 acknowledges correctly and then floods uni streams, 5 acknowledges correctly, then
    /// crashes without a close and comes back remembering only its stateless-reset key, so that
    /// the victim's next packet is answered with a valid stateless reset
    VDialsHostileListener(u8),
    /// `rounds` further hostile peers (valid identities) connect one after the other; each opens
    /// `streams` request streams carrying an incomplete or slow request, holds them, and closes
    /// its connection abruptly with the requests still in flight
    FloodRounds { rounds: u8, streams: u8, slow: bool },
    Sleep(u8),
}

#[derive(Clone, Debug, Serialize, Deserialize, PartialEq, Eq, Hash)]
pub struct Case {
    pub actions: Vec<Action>,
    /// final abrupt close by Z: (code, reason bytes); None = just drop the endpoint
    pub close: Option<(u32, Vec<u8>)>,
    pub link_delay_ms: u8,
}

fn template(id: u64, route: &str, extra: &[(String, String)], body_len: usize) -> (Vec<u8>, HashMap<String, String>, Bytes) {
    let ctl = Ctl { id, delay_ms: 0, status_idx: 0, resp_len: 24, resp_hdrs: 1, mode: 0 };
    let body = ctl.encode(body_len.max(recorder::CTL_LEN));
    let headers: Vec<(String, String)> = extra.to_vec();
    let bytes = rw::encode_request(&rw::RefRequest { version: 1, route: route.to_string(), headers: headers.clone(), body: body.to_vec() });
    (bytes, headers.into_iter().collect(), body)
}

fn payload_bytes(p: &Payload, id: u64) -> Vec<u8> {
    let (valid, _, _) = template(id, "/exact", &[("k".to_string(), "v".to_string())], 60);
    match p {
        Payload::Random(b) => b.clone(),
        Payload::Mutated(m) => {
            let mut b = valid;
            for (off, x) in m {
                let i = idx(*off, b.len());
                b[i] ^= *x | 1;
            }
            b
        }
        Payload::Truncated(n) => valid[..idx(*n, valid.len())].to_vec(),
        Payload::Prefix(n) => valid[..(*n as usize).min(valid.len())].to_vec(),
        Payload::HugeLen { second, len } => {
            let mut b = valid;
            let off = if *second { 12 + u32::from_be_bytes(b[8..12].try_into().unwrap()) as usize } else { 8 };
            b[off..off + 4].copy_from_slice(&len.to_be_bytes());
            b
        }
        Payload::HostileHeader(k) => {
            let mut h = Vec::new();
            match k % 6 {
                0 => { h.extend_from_slice(&u64::MAX.to_le_bytes()); h.extend_from_slice(b"/x"); }
                1 => { h.extend_from_slice(&2u64.to_le_bytes()); h.extend_from_slice(b"/x"); h.extend_from_slice(&u64::MAX.to_le_bytes()); }
                2 => { h.extend_from_slice(&4u64.to_le_bytes()); h.extend_from_slice(&[0xff, 0xfe, 0xc0, 0x80]); h.extend_from_slice(&0u64.to_le_bytes()); }
                3 => { let r = "/".repeat(10_000); h.extend_from_slice(&(r.len() as u64).to_le_bytes()); h.extend_from_slice(r.as_bytes()); h.extend_from_slice(&0u64.to_le_bytes()); }
                4 => { h.extend_from_slice(&2u64.to_le_bytes()); h.extend_from_slice(b"/x"); h.extend_from_slice(&(1u64 << 40).to_le_bytes()); h.extend_from_slice(&[1, 2, 3]); }
                _ => {}
            }
            let mut b = rw::PREAMBLE_V1.to_vec();
            b.extend_from_slice(&(h.len() as u32).to_be_bytes());
            b.extend_from_slice(&h);
            b.extend_from_slice(&3u32.to_be_bytes());
            b.extend_from_slice(b"abc");
            b
        }
        Payload::OddRequest { route, timeout, body_len } => {
            let mut extra = vec![];
            if let Some(t) = timeout {
                extra.push(("timeout".to_string(), t.clone()));
            }
            template(id, route, &extra, *body_len as usize).0
        }
        Payload::Empty => Vec::new(),
    }
}

fn victim_service(rec: &Arc<Recorder>) -> Router {
    Router::new()
        .route("/exact", rec.service())
        .route("/wild/*rest", rec.service())
        .route("/svc.Name/*rest", rec.service())
}

/// Fuzz entry: one inbound request stream handled in-process the way the per-stream handler
/// does it (read_request -> service -> write_response), with the victim's Router as service.
pub fn fuzz_stream(data: &[u8]) -> Result<(), Fail> {
    use futures::FutureExt;
    use tower::ServiceExt;
    thread_local! {
        static VICTIM: (Arc<Recorder>, Router) = {
            let rec = Recorder::new(tokio::time::Instant::now());
            rec.resp_cap.store(60_000, std::sync::atomic::Ordering::Relaxed);
            let r = victim_service(&rec);
            (rec, r)
        };
    }
    let mut cfg = anemo::Config::default();
    cfg.max_frame_size = Some(64 * 1024);
    let req = match anemo::verif::wire::read_request(&cfg, data).now_or_never() {
        None => vfail!("c06:stream-decoder-pending", "request decoder pending on a finite stream"),
        Some(Err(_)) => return Ok(()), // rejected: affects only its own stream
        Some(Ok(r)) => r,
    };
    let route = req.route().to_string();
    let hm = req.headers().clone();
    let body = req.body().clone();
    let router = VICTIM.with(|v| v.1.clone());
    VICTIM.with(|v| v.0.log.lock().unwrap().clear());
    // handler delays are virtual sleeps: poll on a paused runtime
    let rt = tokio::runtime::Builder::new_current_thread().enable_time().start_paused(true).build().unwrap();
    let resp = rt.block_on(async move { tokio::time::timeout(Duration::from_secs(100_000_000), router.oneshot(req)).await });
    let resp = match resp {
        Ok(Ok(r)) => r,
        Ok(Err(_)) => unreachable!(),
        Err(_) => return Ok(()), // a never-finishing handler was requested by the control block
    };
    let mut out = Vec::new();
    match anemo::verif::wire::write_response(&cfg, &mut out, resp).now_or_never() {
        None => vfail!("c06:stream-encoder-pending", "response encoder pending"),
        Some(Err(_)) => return Ok(()), // oversize response refused by the sender: this RPC fails, nothing else
        Some(Ok(())) => {}
    }
    let (r, used) = match rw::decode_response(&out, usize::MAX) {
        Ok(x) => x,
        Err(e) => vfail!("c06:stream-bad-response", "the response written for a decodable request does not follow the layout: {e:?}"),
    };
    vensure!(used == out.len(), "c06:stream-bad-response", "trailing bytes after the response");
    // routed to the recorder => exactly F(request); otherwise NotFound
    let matched = route == "/exact" || route.starts_with("/wild/") || route.starts_with("/svc.Name/");
    if matched {
        let exp = crate::simnet::recorder::expected_response_capped(&route, &hm, &body, 60_000);
        let mut want: Vec<_> = exp.headers.into_iter().collect();
        want.sort();
        vensure!(r.status == exp.status && r.headers == want && r.body == exp.body.as_ref(), "c06:stream-wrong-response", "request on {route:?}: response is not the handler's (status {} vs {})", r.status, exp.status);
    } else {
        vensure!(r.status == 404, "c06:stream-wrong-response", "unmatched route {route:?} answered with status {}", r.status);
    }
    Ok(())
}

pub fn check(case: &Case, obs: &mut Obs) -> Result<(), Fail> {
    let case = case.clone();
    run_sim(41, case.link_delay_ms.max(1) as u64, |sim| async move {
        // --- victim: a Router behind the network's own layers, frame limit and inbound timeout set
        let mut vs = NodeSpec::new(0);
        vs.config.max_frame_size = Some(64 * 1024);
        vs.config.inbound_request_timeout_ms = Some(20_000);
        vs.config.outbound_request_timeout_ms = Some(3_000);
        let vrec = Recorder::new(sim.fabric.epoch());
        vrec.resp_cap.store(60_000, std::sync::atomic::Ordering::Relaxed);
        let vnet = sim.start_node(&vs, victim_service(&vrec)).map_err(|e| Fail::Inconclusive(e.to_string()))?;
        let v = Node { net: vnet, rec: vrec, spec: vs };
        let h = sim.node(1)?;
        match within(10_000, h.net.connect(v.addr())).await {
            Ok(Ok(_)) => {}
            _ => return Err(Fail::Inconclusive("honest peer could not connect".into())),
        }
        // --- adversary with a valid identity
        let z_seed = key_seed(377);
        let z_id = peer_id_of_seed(&z_seed);
        let own = Presented::honest(&z_seed, "simnet");
        let seen: adv::Recorded = Arc::new(Mutex::new(Vec::new()));
        let z_ep = adv::raw_endpoint(&sim.fabric, node_addr(3), None).map_err(|e| Fail::Inconclusive(e.to_string()))?;
        let conn = match within(10_000, adv::dial_and_await_ack(&z_ep, adv::client_config(Some(&own), seen), v.addr(), "simnet")).await {
            Ok(Ok(c)) => c,
            other => return Err(Fail::Inconclusive(format!("adversary with a valid identity not admitted: {:?}", other.map(|r| r.map(|_| ())))) ),
        };
        sleep_ms(50).await;
        vensure!(v.net.peers().contains(&z_id), "c06:setup", "victim does not list the (validly authenticated) adversary");
        // Z answers V's calls from a queue of hostile responses
        let answers: Arc<Mutex<VecDeque<Resp>>> = Arc::new(Mutex::new(VecDeque::new()));
        {
            let conn = conn.clone();
            let answers = answers.clone();
            tokio::spawn(async move {
                while let Ok((mut tx, mut rx)) = conn.accept_bi().await {
                    let resp = answers.lock().unwrap().pop_front().unwrap_or(Resp::Valid);
                    tokio::spawn(async move {
                        let _ = rx.read_to_end(1 << 20).await;
                        let valid = rw::encode_response(&rw::RefResponse { version: 1, status: 200, headers: vec![("a".into(), "b".into())], body: b"ok".to_vec() });
                        match resp {
                            Resp::Junk(b) => { let _ = tx.write_all(&b).await; let _ = tx.finish(); }
                            Resp::Truncated(n) => { let _ = tx.write_all(&valid[..idx(n, valid.len())]).await; let _ = tx.finish(); }
                            Resp::UnknownStatus(s) => { let _ = tx.write_all(&rw::encode_response(&rw::RefResponse { version: 1, status: s, headers: vec![], body: vec![] })).await; let _ = tx.finish(); }
                            Resp::Oversized => { let _ = tx.write_all(&rw::encode_response(&rw::RefResponse { version: 1, status: 200, headers: vec![], body: vec![7; 100_000] })).await; let _ = tx.finish(); }
                            Resp::Reset => { let _ = tx.reset(7u32.into()); }
                            Resp::Never => { tokio::time::sleep(Duration::from_secs(3600)).await; }
                            Resp::Valid => { let _ = tx.write_all(&valid).await; let _ = tx.finish(); }
                        }
                        let _ = tx.stopped().await;
                    });
                }
            });
        }
        let mut held: Vec<(quinn::SendStream, quinn::RecvStream)> = Vec::new();
        let mut held_uni: Vec<quinn::SendStream> = Vec::new();
        let mut hostile_listeners = 0u32;
        let mut hostile_eps = Vec::new();
        let (mut flooders, mut total_abandoned_in_flight, mut stateless_resets) = (0u32, 0usize, 0u32);
        let mut next_id = 100u64;
        let (mut n_malformed, mut n_honest, mut n_wellformed) = (0, 0, 0);

        // honest RPC helper (both directions), checked against F through the Router
        async fn honest(h: &Node, v: &Node, h_calls: bool, id: u64, when: &str) -> Result<(), Fail> {
            let route = ROUTES[(id % 3) as usize];
            let ctl = Ctl { id, delay_ms: 1, status_idx: 0, resp_len: 300, resp_hdrs: 2, mode: 0 };
            let req = ctl_request(route, &[], &ctl, 200);
            let body = req.body().clone();
            let (caller, callee) = if h_calls { (h, v) } else { (v, h) };
            match within(10_000, caller.net.rpc(callee.id(), req)).await {
                Ok(Ok(resp)) => {
                    let exp = expected_response(route, &HashMap::new(), &body);
                    vensure!(resp.status().to_u16() == exp.status && resp.headers() == &exp.headers && resp.body() == &exp.body, "c06:honest-rpc-corrupted", "{when}: honest RPC (H calls V = {h_calls}) returned a wrong response");
                    Ok(())
                }
                other => Err(Fail::violation("c06:honest-rpc-failed", format!("{when}: honest RPC (H calls V = {h_calls}) failed: {:?}; victim closed = {}", other.map(|r| r.map(|x| x.status().to_u16()).map_err(|e| e.to_string())), v.net.is_closed()))),
            }
        }

        for (step, a) in case.actions.iter().enumerate() {
            let when = format!("after step {step} {:?}", a);
            match a {
                Action::Stream(p, ending) => {
                    n_malformed += 1;
                    next_id += 1;
                    let bytes = payload_bytes(p, next_id);
                    let Ok(Ok((mut tx, mut rx))) = within(5_000, conn.open_bi()).await else { continue };
                    let _ = within(5_000, tx.write_all(&bytes)).await;
                    match ending {
                        Ending::Finish => { let _ = tx.finish(); }
                        Ending::Reset(c) => { let _ = tx.reset((*c as u32).into()); }
                        Ending::StopResponse(c) => { let _ = rx.stop((*c as u32).into()); let _ = tx.finish(); }
                        Ending::HoldOpen => held.push((tx, rx)),
                        Ending::FinishAndRead => { let _ = tx.finish(); let _ = within(5_000, rx.read_to_end(1 << 20)).await; }
                    }
                }
                Action::Burst(n, p) => {
                    n_malformed += 1;
                    for _ in 0..*n {
                        next_id += 1;
                        let bytes = payload_bytes(p, next_id);
                        match within(200, conn.open_bi()).await {
                            Ok(Ok((mut tx, rx))) => { let _ = within(2_000, tx.write_all(&bytes)).await; held.push((tx, rx)); }
                            _ => break, // stream limit reached: that is the peer's own problem
                        }
                    }
                }
                Action::Uni(len) => {
                    if let Ok(Ok(mut u)) = within(2_000, conn.open_uni()).await {
                        let _ = within(2_000, u.write_all(&vec![0xAB; *len as usize])).await;
                        let _ = u.finish();
                    }
                }
                Action::UniHeld(n) => {
                    n_malformed += 1;
                    if let Ok(Ok(mut u)) = within(2_000, conn.open_uni()).await {
                        let _ = within(2_000, u.write_all(&adv::PREAMBLE[..(*n as usize).min(8)])).await;
                        held_uni.push(u);
                    }
                }
                Action::Datagram(len) => { let _ = conn.send_datagram(Bytes::from(vec![0xCD; (*len as usize).min(1000)])); }
                Action::WellFormed(r, body_len) => {
                    // only meaningful while Z still has stream credit (streams it holds open are its own doing)
                    next_id += 1;
                    let route = ROUTES[*r as usize % 3];
                    let (bytes, hm, body) = template(next_id, route, &[("k".to_string(), "v".to_string())], *body_len as usize);
                    let opened = within(1_000, conn.open_bi()).await;
                    let Ok(Ok((mut tx, mut rx))) = opened else {
                        vensure!(held.len() >= 50, "c06:well-formed-starved", "{when}: Z could not open a stream within 1 s although it holds only {} of 100 (stream credit for closed streams may lag a little, so only < 50 is asserted)", held.len());
                        continue;
                    };
                    n_wellformed += 1;
                    let _ = tx.write_all(&bytes).await;
                    let _ = tx.finish();
                    let resp = match within(10_000, rx.read_to_end(1 << 20)).await {
                        Ok(Ok(b)) => b,
                        other => vfail!("c06:well-formed-failed", "{when}: a well-formed request from the same peer on another stream was not answered: {:?}", other.map(|r| r.map(|b| b.len()).map_err(|e| e.to_string()))),
                    };
                    let exp = expected_response(route, &hm, &body);
                    match rw::decode_response(&resp, usize::MAX) {
                        Ok((r, _)) => {
                            let mut want: Vec<_> = exp.headers.into_iter().collect();
                            want.sort();
                            vensure!(r.status == exp.status && r.headers == want && r.body == exp.body.as_ref(), "c06:well-formed-corrupted", "{when}: well-formed request got a wrong response (status {})", r.status);
                        }
                        Err(e) => vfail!("c06:well-formed-corrupted", "{when}: response to a well-formed request does not parse: {e:?}"),
                    }
                }
                Action::Honest(h_calls) => {
                    n_honest += 1;
                    next_id += 1;
                    honest(&h, &v, *h_calls, next_id, &when).await?;
                }
                Action::VCallsZ(resp) => {
                    answers.lock().unwrap().push_back(resp.clone());
                    let ctl = Ctl { id: 1, delay_ms: 0, status_idx: 0, resp_len: 1, resp_hdrs: 0, mode: 0 };
                    // must return (Ok or Err): the victim has a 3 s outbound default
                    match within(10_000, v.net.rpc(z_id, ctl_request("/to-z", &[], &ctl, 30))).await {
                        Ok(_) => {}
                        Err(()) => vfail!("c06:call-to-hostile-peer-hung", "{when}: the victim's RPC to the hostile peer did not return within 10 virtual seconds (outbound default 3 s)"),
                    }
                }
                Action::FloodRounds { rounds, streams, slow } => {
                    n_malformed += 1;
                    for r in 0..*rounds {
                        flooders += 1;
                        let w_seed = key_seed(3000 + flooders as u64);
                        let wp = Presented::honest(&w_seed, "simnet");
                        let Ok(w_ep) = adv::raw_endpoint(&sim.fabric, node_addr(120 + (flooders % 100) as u8), None) else { continue };
                        let wc = match within(10_000, adv::dial_and_await_ack(&w_ep, adv::client_config(Some(&wp), Arc::new(Mutex::new(Vec::new()))), v.addr(), "simnet")).await {
                            Ok(Ok(c)) => c,
                            other => vfail!("c06:stopped-accepting", "{when}: hostile peer number {flooders} (valid identity) was not admitted: {:?}", other.map(|r| r.map(|_| ()))),
                        };
                        let mut hold = Vec::new();
                        for k in 0..*streams {
                            next_id += 1;
                            let bytes = if *slow {
                                // a complete request whose handler takes 30 s
                                let ctl = Ctl { id: next_id, delay_ms: 30_000, status_idx: 0, resp_len: 8, resp_hdrs: 0, mode: 0 };
                                rw::encode_request(&rw::RefRequest { version: 1, route: ROUTES[0].to_string(), headers: vec![], body: ctl.encode(recorder::CTL_LEN).to_vec() })
                            } else {
                                let (valid, _, _) = template(next_id, ROUTES[0], &[], 60);
                                valid[..(8 + (k as usize + r as usize) % (valid.len() - 8))].to_vec()
                            };
                            match within(200, wc.open_bi()).await {
                                Ok(Ok((mut tx, rx))) => { let _ = within(2_000, tx.write_all(&bytes)).await; if *slow { let _ = tx.finish(); } hold.push((tx, rx)); }
                                _ => break,
                            }
                        }
                        sleep_ms(2 * case.link_delay_ms as u64 + 5).await;
                        total_abandoned_in_flight += hold.len();
                        wc.close(quinn::VarInt::from_u32(r as u32), b"bye");
                        drop(hold);
                        drop(wc);
                        let _ = within(3_000, w_ep.wait_idle()).await;
                        drop(w_ep);
                    }
                    sleep_ms(100).await;
                }
                Action::VDialsHostileListener(kind) if *kind % 6 == 5 => {
                    n_malformed += 1;
                    hostile_listeners += 1;
                    let addr = node_addr(10 + hostile_listeners as u8);
                    let y_seed = key_seed(390 + hostile_listeners as u64);
                    let yp = Presented::honest(&y_seed, "simnet");
                    let y_id = peer_id_of_seed(&y_seed);
                    let reset_key = [0x5a_u8; 64];
                    let server = || adv::server_config(&yp, false, Arc::new(Mutex::new(Vec::new())), Arc::new(Mutex::new(Vec::new())));
                    let Ok(ep) = adv::raw_endpoint_remembering_resets(&sim.fabric, addr, Some(server()), &reset_key) else { continue };
                    let ep2 = ep.clone();
                    let crash = Arc::new(tokio::sync::Notify::new());
                    let crash2 = crash.clone();
                    let task = tokio::spawn(async move {
                        let Ok(conn) = adv::accept_and_ack(&ep2).await else { return };
                        crash2.notified().await;
                        drop(conn);
                    });
                    match within(12_000, v.net.connect(addr)).await {
                        Ok(Ok(p)) => vensure!(p == y_id, "c06:hostile-listener-id", "{when}: connect returned {p}"),
                        Ok(Err(_)) => { task.abort(); continue; }
                        Err(()) => vfail!("c06:dial-to-hostile-listener-hung", "{when}: the victim's dial did not return within 12 virtual seconds (connect timeout 10 s)"),
                    }
                    // crash: nothing of the old life's goodbye reaches the victim
                    sim.fabric.set_blackhole(addr, true);
                    crash.notify_one();
                    let _ = task.await;
                    ep.close(0u32.into(), b"");
                    drop(ep);
                    let mut gone = false;
                    for _ in 0..200 {
                        if !sim.fabric.is_bound(addr) { gone = true; break; }
                        sleep_ms(50).await;
                    }
                    sim.fabric.set_blackhole(addr, false);
                    if !gone { obs.label("reset-scenario:old-endpoint-lingered"); continue; }
                    // second life: same address, same reset key, no memory of the connection
                    let Ok(ep) = adv::raw_endpoint_remembering_resets(&sim.fabric, addr, Some(server()), &reset_key) else { continue };
                    let before = sim.fabric.bytes_sent_from(addr);
                    let ctl = Ctl { id: 800_000 + hostile_listeners as u64, delay_ms: 0, status_idx: 0, resp_len: 8, resp_hdrs: 0, mode: 0 };
                    match within(15_000, v.net.rpc(y_id, ctl_request(ROUTES[0], &[], &ctl, 300))).await {
                        Ok(_) => {}
                        Err(()) => vfail!("c06:call-to-hostile-peer-hung", "{when}: the victim's RPC to the restarted hostile peer did not return within 15 virtual seconds (outbound default 3 s)"),
                    }
                    sleep_ms(4 * case.link_delay_ms as u64 + 20).await;
                    if sim.fabric.bytes_sent_from(addr) > before { obs.label("stateless-reset-sent-to-victim"); stateless_resets += 1; }
                    hostile_eps.push(ep);
                }
                Action::VDialsHostileListener(kind) => {
                    let kind = *kind % 5;
                    n_malformed += 1;
                    hostile_listeners += 1;
                    let addr = node_addr(10 + hostile_listeners as u8);
                    let y_seed = key_seed(390 + hostile_listeners as u64);
                    let yp = Presented::honest(&y_seed, "simnet");
                    let Ok(ep) = adv::raw_endpoint(&sim.fabric, addr, Some(adv::server_config(&yp, false, Arc::new(Mutex::new(Vec::new())), Arc::new(Mutex::new(Vec::new()))))) else { continue };
                    let ep2 = ep.clone();
                    tokio::spawn(async move {
                        let Some(incoming) = ep2.accept().await else { return };
                        let Ok(conn) = incoming.await else { return };
                        match kind {
                            0 => { tokio::time::sleep(Duration::from_secs(3600)).await; }
                            1 => { if let Ok(mut u) = conn.open_uni().await { let _ = u.write_all(b"http3\0\x01\0").await; let _ = u.finish(); let _ = u.stopped().await; } }
                            2 => { if let Ok(mut u) = conn.open_uni().await { let _ = u.write_all(&[0xff; 3]).await; let _ = u.reset(9u32.into()); } tokio::time::sleep(Duration::from_secs(5)).await; }
                            3 => conn.close(77u32.into(), &[0xfe, 0xff]),
                            _ => {
                                if let Ok(mut u) = conn.open_uni().await { let _ = u.write_all(&adv::PREAMBLE).await; let _ = u.finish(); let _ = u.stopped().await; }
                                for _ in 0..50 { if let Ok(mut u) = conn.open_uni().await { let _ = u.write_all(&[1, 2, 3]).await; let _ = u.finish(); } }
                                tokio::time::sleep(Duration::from_secs(2)).await;
                            }
                        }
                        drop(conn);
                    });
                    // the dial must return (Ok only for the well-behaved acknowledgement), bounded by the connect timeout
                    match within(12_000, v.net.connect(addr)).await {
                        Ok(Ok(_)) => vensure!(kind == 4, "c06:hostile-listener-admitted", "{when}: the victim's dial to a listener that {} succeeded", ["never acknowledges", "sends a wrong preamble", "sends junk and resets", "closes at once", ""][kind as usize]),
                        Ok(Err(_)) => {}
                        Err(()) => vfail!("c06:dial-to-hostile-listener-hung", "{when}: the victim's dial did not return within 12 virtual seconds (connect timeout 10 s)"),
                    }
                    hostile_eps.push(ep);
                }
                Action::Sleep(ms) => sleep_ms(*ms as u64).await,
            }
            check_no_panics(&when)?;
            vensure!(!v.net.is_closed(), "c06:network-shut-down", "{when}: the victim network reports closed");
        }
        // abrupt close
        match &case.close {
            Some((code, reason)) => conn.close(quinn::VarInt::from_u32(*code), reason),
            None => drop(z_ep),
        }
        drop(held);
        drop(held_uni);
        sleep_ms(200).await;
        check_no_panics("after the hostile peer closed")?;
        vensure!(!v.net.is_closed(), "c06:network-shut-down", "after the hostile peer's close the victim network reports closed");
        honest(&h, &v, true, 900_001, "after the hostile peer closed").await?;
        honest(&h, &v, false, 900_002, "after the hostile peer closed").await?;
        // a fresh connection is still accepted and served
        let f = sim.node(4)?;
        match within(10_000, f.net.connect(v.addr())).await {
            Ok(Ok(_)) => honest(&f, &v, true, 900_003, "fresh connection after the script").await?,
            other => vfail!("c06:stopped-accepting", "after the script the victim does not accept a fresh connection: {:?}", other.map(|r| r.map_err(|e| e.to_string()))),
        }
        sim.health()?;
        check_no_panics("at the end")?;
        obs.evals(case.actions.len() as u64);
        obs.label(format!("malformed>0={} honest>0={} wellformed>0={}", n_malformed > 0, n_honest > 0, n_wellformed > 0));
        if total_abandoned_in_flight >= 512 { obs.label("connections-closed-with->=512-requests-in-flight-in-total"); }
        let _ = stateless_resets;
        if n_malformed > 0 && (n_honest > 0 || n_wellformed > 0) {
            obs.nontrivial(&case);
        }
        Ok(())
    })
}

fn payload() -> BoxedStrategy<Payload> {
    prop_oneof![
        2 => prop::collection::vec(any::<u8>(), 0..300).prop_map(Payload::Random),
        3 => prop::collection::vec((any::<u16>(), any::<u8>()), 1..4).prop_map(Payload::Mutated),
        3 => any::<u16>().prop_map(Payload::Truncated),
        2 => (0u8..14).prop_map(Payload::Prefix),
        2 => (any::<bool>(), prop_oneof![Just(u32::MAX), Just(65_537u32), Just(65_536u32), Just(1u32 << 31), any::<u32>()]).prop_map(|(second, len)| Payload::HugeLen { second, len }),
        2 => (0u8..6).prop_map(Payload::HostileHeader),
        4 => (prop_oneof![3 => prop::sample::select(vec!["/exact", "/wild/x", "/wild/", "/svc.Name/m", "", "/", "//", "/exact/", "/:a", "/*a", "/wild/*rest", "no-slash"]).prop_map(str::to_string), 1 => "\\PC{0,80}", 1 => "[é/]{30,90}"],
               prop::option::of(prop_oneof![Just("0".to_string()), Just("1".to_string()), Just("1000".to_string()), Just("1999999".to_string()), Just("abc".to_string()), Just("-1".to_string()), Just(u64::MAX.to_string()), any::<u64>().prop_map(|n| n.to_string()), "[ -~]{0,8}"]),
               0u16..2000).prop_map(|(route, timeout, body_len)| Payload::OddRequest { route, timeout, body_len }),
        1 => Just(Payload::Empty),
    ]
    .boxed()
}

/// close reasons: random bytes, and ASCII runs of 0-300 bytes followed by a multi-byte character
/// (so that every small byte offset is at some time the middle of a character)
fn close_reason() -> BoxedStrategy<Vec<u8>> {
    prop_oneof![
        2 => prop::collection::vec(any::<u8>(), 0..40),
        1 => prop::collection::vec(any::<u8>(), 40..400),
        3 => (0usize..300, prop::sample::select(vec!["é", "ß", "€", "😀", "\u{fffd}"]), 0usize..40).prop_map(|(n, ch, m)| { let mut v = vec![b'a'; n]; v.extend_from_slice(ch.as_bytes()); v.extend(std::iter::repeat(b'z').take(m)); v }),
    ]
    .boxed()
}

pub struct Scripts;
impl Part for Scripts {
    type Case = Case;
    fn name(&self) -> &'static str { "hostile-scripts" }
    fn rule(&self) -> &'static str {
        "victim = Router (exact, wildcard, rpc-style routes) behind the network's own layers with max_frame_size and timeouts set; honest peer H; adversary Z = raw QUIC endpoint with a VALID identity, admitted; Z's generated script: request streams carrying {random bytes, mutated valid request, valid request truncated at a generated offset (also inside the preamble and the first length prefix), frame lengths up to 0xFFFFFFFF, valid preamble + hostile bincode (huge string/map lengths, invalid UTF-8, 10^4-char route), well-formed requests with odd routes and timeout-header values (0, tiny, huge, garbage)} ended by {finish, reset, stop of the response side, hold open, read}, bursts of held streams, uni streams (finished, or abandoned after 0-8 bytes of the preamble), datagrams, hostile RESPONSES when the victim calls Z (junk, truncated, unknown status, oversized, reset, never), hostile LISTENERS the victim dials (never acknowledge, wrong preamble, junk + reset, immediate close with non-UTF-8 reason, uni-stream flood after a correct acknowledgement, crash without close + restart answering the victim's next packet with a valid stateless reset), rounds of up to 9 further hostile peers each abandoning up to 100 in-flight (incomplete or slow) requests by closing abruptly, interleaved with honest H<->V RPCs and well-formed Z RPCs, then an abrupt close with arbitrary code and reason bytes (random, up to 400 bytes, or ASCII runs of 0-300 bytes followed by a multi-byte character); oracle: no panic anywhere, victim not closed, every honest RPC and every well-formed Z RPC answered with exactly F(request), calls to Z return, a fresh connection is accepted and served afterwards; non-trivial = script with >=1 malformed stream and >=1 concurrent honest or well-formed RPC; distinct by script"
    }
    fn strategy(&self, _t: Tier) -> BoxedStrategy<Case> {
        let ending = prop_oneof![3 => Just(Ending::Finish), 2 => any::<u8>().prop_map(Ending::Reset), 1 => any::<u8>().prop_map(Ending::StopResponse), 1 => Just(Ending::HoldOpen), 2 => Just(Ending::FinishAndRead)];
        let resp = prop_oneof![
            prop::collection::vec(any::<u8>(), 0..100).prop_map(Resp::Junk), any::<u16>().prop_map(Resp::Truncated), any::<u16>().prop_map(Resp::UnknownStatus),
            Just(Resp::Oversized), Just(Resp::Reset), Just(Resp::Never), Just(Resp::Valid)
        ];
        let action = prop_oneof![
            8 => (payload(), ending).prop_map(|(p, e)| Action::Stream(p, e)),
            1 => (1u8..120, payload()).prop_map(|(n, p)| Action::Burst(n, p)),
            1 => (0u16..3000).prop_map(Action::Uni),
            1 => (0u8..10).prop_map(Action::UniHeld),
            1 => (0u16..1200).prop_map(Action::Datagram),
            3 => (0u8..3, 0u16..3000).prop_map(|(r, b)| Action::WellFormed(r, b)),
            3 => any::<bool>().prop_map(Action::Honest),
            2 => resp.prop_map(Action::VCallsZ),
            1 => (0u8..6).prop_map(Action::VDialsHostileListener),
            1 => (prop_oneof![3 => 1u8..3, 1 => 6u8..10], prop_oneof![1 => 1u8..20, 2 => 90u8..101], any::<bool>()).prop_map(|(rounds, streams, slow)| Action::FloodRounds { rounds, streams, slow }),
            1 => (0u8..50).prop_map(Action::Sleep),
        ];
        (prop::collection::vec(action, 1..25), prop::option::weighted(0.8, (any::<u32>().prop_map(|c| c & 0x3fff_ffff), close_reason())), 1u8..15)
            .prop_map(|(actions, close, link_delay_ms)| Case { actions, close, link_delay_ms })
            .boxed()
    }
    fn run(&self, c: &Case, obs: &mut Obs) -> Result<(), Fail> { check(c, obs) }
}

pub fn run(tier: Tier) -> i32 {
    let mut ctx = Ctx::new("C06", tier);
    ctx.assume("resource exhaustion (memory, CPU) by a peer is outside the statement and not measured");
    ctx.assume("the adversary is a raw quinn endpoint: it can do anything a QUIC peer with a valid certificate can do at stream/datagram/close level");
    ctx.run_part(Scripts, tier.pick(5_000, 120_000));
    if tier == Tier::Thorough {
        crate::fuzzrun::campaign(&mut ctx, "inbound_stream", 600_000);
    }
    ctx.finish()
}
