//! C16 — routing delivers each request to exactly the matching service.

use crate::core::*;
use crate::refmodel::routes::{self, MRouter};
use crate::{vensure, vfail};
use anemo::types::response::StatusCode;
use anemo::{Request, Response, Router};
use bytes::Bytes;
use proptest::prelude::*;
use serde::{Deserialize, Serialize};
use std::convert::Infallible;
use std::sync::atomic::{AtomicU32, Ordering};
use std::sync::Arc;
use std::task::{Context, Poll};
use tower::{Layer, Service, ServiceExt};

#[derive(Clone, Debug, Serialize, Deserialize, PartialEq, Eq, Hash)]
pub enum Op {
    Route(String),
    Rpc(u8),
    Layer,
    Merge(Vec<Op>),
    /// the router built so far is cloned, the clone is extended by these operations (a layer,
    /// further routes), and merged back: both sides contain the routes of the common base
    MergeClone(Vec<Op>),
}

#[derive(Clone, Debug, Serialize, Deserialize, PartialEq, Eq, Hash)]
pub enum Probe {
    /// derived from the table's i-th pattern: variant selects an edit
    FromPattern { pat: u16, variant: u8, tail: String },
    Raw(String),
}

#[derive(Clone, Debug, Serialize, Deserialize, PartialEq, Eq, Hash)]
pub struct Case {
    pub table: Vec<Op>,
    pub probes: Vec<Probe>,
}

pub const RPC_NAMES: [&str; 3] = ["svc.Name", "a", "pkg.sub.Greeter"];

// ---- instrumented services and layers ----

#[derive(Clone)]
struct Tagged {
    id: u32,
    counter: Arc<Vec<AtomicU32>>,
}

impl Service<Request<Bytes>> for Tagged {
    type Response = Response<Bytes>;
    type Error = Infallible;
    type Future = std::future::Ready<Result<Response<Bytes>, Infallible>>;
    fn poll_ready(&mut self, _: &mut Context<'_>) -> Poll<Result<(), Infallible>> {
        Poll::Ready(Ok(()))
    }
    fn call(&mut self, _req: Request<Bytes>) -> Self::Future {
        self.counter[self.id as usize].fetch_add(1, Ordering::SeqCst);
        std::future::ready(Ok(Response::new(Bytes::new()).with_header("svc", self.id.to_string())))
    }
}

macro_rules! rpc_svc {
    ($name:ident, $idx:expr) => {
        #[derive(Clone)]
        struct $name(Tagged);
        impl anemo::rpc::RpcService for $name {
            const SERVICE_NAME: &'static str = RPC_NAMES[$idx];
        }
        impl Service<Request<Bytes>> for $name {
            type Response = Response<Bytes>;
            type Error = Infallible;
            type Future = std::future::Ready<Result<Response<Bytes>, Infallible>>;
            fn poll_ready(&mut self, _: &mut Context<'_>) -> Poll<Result<(), Infallible>> {
                Poll::Ready(Ok(()))
            }
            fn call(&mut self, req: Request<Bytes>) -> Self::Future {
                self.0.call(req)
            }
        }
    };
}
rpc_svc!(Rpc0, 0);
rpc_svc!(Rpc1, 1);
rpc_svc!(Rpc2, 2);

#[derive(Clone)]
struct TagLayer(u32);
#[derive(Clone)]
struct TagSvc<S> {
    inner: S,
    tag: u32,
}
impl<S> Layer<S> for TagLayer {
    type Service = TagSvc<S>;
    fn layer(&self, inner: S) -> TagSvc<S> {
        TagSvc { inner, tag: self.0 }
    }
}
impl<S> Service<Request<Bytes>> for TagSvc<S>
where
    S: Service<Request<Bytes>, Response = Response<Bytes>, Error = Infallible> + Send,
    S::Future: Send + 'static,
{
    type Response = Response<Bytes>;
    type Error = Infallible;
    type Future = futures::future::BoxFuture<'static, Result<Response<Bytes>, Infallible>>;
    fn poll_ready(&mut self, cx: &mut Context<'_>) -> Poll<Result<(), Infallible>> {
        self.inner.poll_ready(cx)
    }
    fn call(&mut self, req: Request<Bytes>) -> Self::Future {
        let fut = self.inner.call(req);
        let tag = self.tag;
        Box::pin(async move {
            let mut resp = fut.await?;
            let cur = resp.headers().get("layers").cloned().unwrap_or_default();
            resp.headers_mut().insert("layers".into(), format!("{cur}{tag},"));
            Ok(resp)
        })
    }
}

struct Builder {
    next_svc: u32,
    next_layer: u32,
    counter: Arc<Vec<AtomicU32>>,
}

fn count_svcs(ops: &[Op]) -> usize {
    ops.iter()
        .map(|o| match o {
            Op::Route(_) | Op::Rpc(_) => 1,
            Op::Layer => 0,
            Op::Merge(sub) | Op::MergeClone(sub) => count_svcs(sub),
        })
        .sum()
}

impl Builder {
    fn build(&mut self, ops: &[Op]) -> (Router, MRouter) {
        self.apply(Router::new(), MRouter::default(), ops)
    }

    fn apply(&mut self, mut r: Router, mut m: MRouter, ops: &[Op]) -> (Router, MRouter) {
        for op in ops {
            match op {
                Op::Route(p) => {
                    let id = self.next_svc;
                    self.next_svc += 1;
                    r = r.route(p, Tagged { id, counter: self.counter.clone() });
                    m.route(p, id);
                }
                Op::Rpc(i) => {
                    let id = self.next_svc;
                    self.next_svc += 1;
                    let t = Tagged { id, counter: self.counter.clone() };
                    let i = *i as usize % 3;
                    r = match i {
                        0 => r.add_rpc_service(Rpc0(t)),
                        1 => r.add_rpc_service(Rpc1(t)),
                        _ => r.add_rpc_service(Rpc2(t)),
                    };
                    // documented: an RPC service lives under /<service-name>/...
                    m.route(&format!("/{}/*rest", RPC_NAMES[i]), id);
                }
                Op::Layer => {
                    let tag = self.next_layer;
                    self.next_layer += 1;
                    r = r.route_layer(TagLayer(tag));
                    m.route_layer(tag);
                }
                Op::Merge(sub) => {
                    let (sr, sm) = self.build(sub);
                    r = r.merge(sr);
                    m.merge(sm);
                }
                Op::MergeClone(sub) => {
                    let (sr, sm) = self.apply(r.clone(), m.clone(), sub);
                    r = r.merge(sr);
                    m.merge(sm);
                }
            }
        }
        (r, m)
    }
}

fn resolve(probe: &Probe, m: &MRouter) -> (String, bool) {
    match probe {
        Probe::Raw(s) => (s.clone(), false),
        Probe::FromPattern { pat, variant, tail } => {
            if m.routes.is_empty() {
                return (tail.clone(), false);
            }
            let p = &m.routes[idx(*pat, m.routes.len())].pattern;
            let concrete = match routes::wildcard_prefix(p) {
                Some(prefix) => format!("{prefix}{tail}"),
                None => p.clone(),
            };
            let s = match variant % 8 {
                0 => concrete,
                1 => format!("{concrete}/"),
                2 => concrete.strip_suffix('/').map(str::to_string).unwrap_or_else(|| {
                    let mut c = concrete.clone();
                    c.pop();
                    c
                }),
                3 => format!("{concrete}/{tail}"),
                4 => concrete.to_uppercase(),
                5 => routes::wildcard_prefix(p).map(|x| x.trim_end_matches('/').to_string()).unwrap_or(format!("{concrete}x")),
                6 => concrete.strip_prefix('/').unwrap_or(&concrete).to_string(),
                _ => routes::wildcard_prefix(p).map(|x| x.to_string()).unwrap_or(format!("/{concrete}")),
            };
            (s, variant % 8 != 0)
        }
    }
}

fn has_layer_after_merge(ops: &[Op]) -> bool {
    let mut seen_merge = false;
    for o in ops {
        match o {
            Op::Merge(sub) | Op::MergeClone(sub) => {
                if !sub.is_empty() {
                    seen_merge = true;
                }
                if has_layer_after_merge(sub) {
                    return true;
                }
            }
            Op::Layer if seen_merge => return true,
            _ => {}
        }
    }
    false
}

pub fn check(case: &Case, obs: &mut Obs) -> Result<(), Fail> {
    let n = count_svcs(&case.table);
    let counter: Arc<Vec<AtomicU32>> = Arc::new((0..n.max(1)).map(|_| AtomicU32::new(0)).collect());
    let mut b = Builder { next_svc: 0, next_layer: 0, counter: counter.clone() };
    let table = case.table.clone();
    let built = std::panic::catch_unwind(std::panic::AssertUnwindSafe(move || b.build(&table)));
    let (router, model) = match built {
        Ok(x) => x,
        Err(e) => {
            let msg = panic_message(&e);
            crate::panics::clear_thread();
            if msg.contains("Invalid route") || msg.contains("Paths must start with") {
                // documented behaviour: conflicting or malformed patterns are refused at construction
                obs.label("discarded:construction-refused");
                return Ok(());
            }
            vfail!("c16:build-panic", "router construction panicked unexpectedly: {msg}");
        }
    };
    // A merge that was accepted must have preserved every registration of both sides. Two registrations
    // of the same pattern that differ in service or middleware cannot both be preserved: such a merge
    // has to be refused at construction (it is, with "Invalid route"), never resolved silently.
    for (i, a) in model.routes.iter().enumerate() {
        if let Some(b) = model.routes[i + 1..].iter().find(|b| b.pattern == a.pattern && (b.svc != a.svc || b.layers != a.layers)) {
            vfail!("c16:merge-dropped-registration", "the router accepted a merge in which pattern {:?} is registered twice with different service/middleware (service {} layers {:?} vs service {} layers {:?}); one of them is silently lost", a.pattern, a.svc, a.layers, b.svc, b.layers);
        }
    }
    let mut one_edit = false;
    for probe in &case.probes {
        let (path, edited) = resolve(probe, &model);
        one_edit |= edited;
        let before: Vec<u32> = counter.iter().map(|c| c.load(Ordering::SeqCst)).collect();
        let req = Request::new(Bytes::new()).with_route(path.clone());
        let r = router.clone();
        let resp = std::panic::catch_unwind(std::panic::AssertUnwindSafe(|| {
            futures::executor::block_on(r.oneshot(req))
        }));
        let resp = match resp {
            Ok(Ok(r)) => r,
            Ok(Err(_)) => unreachable!(),
            Err(e) => {
                crate::panics::clear_thread();
                vfail!("c16:panic", "routing panicked on route {:?}: {}", path, panic_message(&e));
            }
        };
        let after: Vec<u32> = counter.iter().map(|c| c.load(Ordering::SeqCst)).collect();
        let bumped: Vec<usize> = (0..after.len()).filter(|i| after[*i] != before[*i]).collect();
        let total: u32 = (0..after.len()).map(|i| after[i] - before[i]).sum();
        let want = model.lookup(&path);
        if want.is_empty() {
            vensure!(total == 0, "c16:unmatched-dispatched", "route {:?} matches no pattern but service(s) {:?} ran", path, bumped);
            vensure!(resp.status() == StatusCode::NotFound, "c16:unmatched-status", "route {:?} matches no pattern but status is {}", path, resp.status().to_u16());
            vensure!(resp.headers().get("layers").is_none(), "c16:layer-on-fallback", "route layer ran for unmatched route {:?}", path);
            obs.label("probe:unmatched");
        } else {
            vensure!(total == 1 && bumped.len() == 1, "c16:not-exactly-one", "route {:?}: {} service invocations ({:?}), expected exactly one of {:?}", path, total, bumped,
                want.iter().map(|r| r.svc).collect::<Vec<_>>());
            let got = bumped[0] as u32;
            let Some(w) = want.iter().find(|r| r.svc == got) else {
                vfail!("c16:wrong-service", "route {:?} dispatched to service {} but matches pattern(s) {:?}", path, got,
                    want.iter().map(|r| (&r.pattern, r.svc)).collect::<Vec<_>>());
            };
            vensure!(resp.headers().get("svc").map(|s| s.as_str()) == Some(&got.to_string()), "c16:response-mixup", "response for {:?} does not come from the invoked service", path);
            let layers = resp.headers().get("layers").cloned().unwrap_or_default();
            let want_layers: String = w.layers.iter().map(|t| format!("{t},")).collect();
            vensure!(layers == want_layers, "c16:layers", "route {:?} (pattern {:?}): layers that ran = [{}], expected [{}]", path, w.pattern, layers, want_layers);
            obs.label(if want.len() > 1 { "probe:ambiguous" } else { "probe:matched" });
        }
    }
    obs.evals(case.probes.len() as u64);
    let has_wild = model.routes.iter().any(|r| routes::wildcard_prefix(&r.pattern).is_some());
    if (has_wild && has_layer_after_merge(&case.table)) || (one_edit && !model.routes.is_empty()) {
        obs.nontrivial(case);
    }
    if has_wild && has_layer_after_merge(&case.table) {
        obs.label("table:wildcard+layer-after-merge");
    }
    Ok(())
}

fn segment() -> impl Strategy<Value = String> {
    prop_oneof![
        6 => prop::sample::select(vec!["a", "b", "x", "ab", "svc.Name", "pkg.sub.Greeter", "é", "a%20b", "A"]).prop_map(str::to_string),
        1 => "[a-z]{1,3}",
    ]
}

fn pattern() -> impl Strategy<Value = String> {
    (prop::collection::vec(segment(), 0..3), 0u8..6).prop_map(|(segs, kind)| {
        let mut p = String::new();
        for s in &segs {
            p.push('/');
            p.push_str(s);
        }
        match kind {
            0 | 1 => format!("{p}/*t"),
            2 => format!("{p}/"),
            _ if p.is_empty() => "/".to_string(),
            _ => p,
        }
    })
}

fn ops(depth: u32) -> BoxedStrategy<Vec<Op>> {
    let leaf = prop_oneof![
        6 => pattern().prop_map(Op::Route),
        1 => (0u8..3).prop_map(Op::Rpc),
        2 => Just(Op::Layer),
    ];
    if depth == 0 {
        prop::collection::vec(leaf, 0..6).boxed()
    } else {
        prop::collection::vec(
            prop_oneof![
                8 => leaf,
                2 => ops(depth - 1).prop_map(Op::Merge),
                1 => ops(depth - 1).prop_map(Op::MergeClone),
            ],
            0..7,
        )
        .boxed()
    }
}

fn weird() -> impl Strategy<Value = String> {
    prop_oneof![
        Just(String::new()),
        Just("/".to_string()),
        Just("//".to_string()),
        "[a-z/]{0,12}",
        "/[a-z:*%/.]{0,12}",
        "\\PC{0,16}",
        any::<String>(),
        Just("/x/\u{0}".to_string()),
        Just(format!("/{}", "a/".repeat(5000))),
        Just("a".repeat(10_000)),
        // long unmatched routes with a multi-byte character at every small offset (anything that cuts,
        // echoes or logs a bounded piece of the route meets a character boundary sooner or later)
        (0usize..400, prop::sample::select(vec!["é", "€", "😀"]), 0usize..40).prop_map(|(n, ch, m)| format!("/{}{}{}", "r".repeat(n), ch, "t".repeat(m))),
        "\\PC{40,300}",
        "/(a|b|x|svc.Name)(/(a|b|x|\\*t|:t)){0,3}/?",
    ]
}

pub struct Tables;
impl Part for Tables {
    type Case = Case;
    fn name(&self) -> &'static str { "tables" }
    fn rule(&self) -> &'static str {
        "route tables built by generated sequences of route (exact and /x/*tail patterns), add_rpc_service, route_layer, nested merge and merge of an extended clone of the router built so far (shared base), probed with 30 route strings (the table's own paths, one-edit variants: trailing slash added/removed, truncated, extended, case changed, leading slash dropped; plus empty, '//', ':' '*' '%' NUL, unicode, 10^4 chars, long routes with a multi-byte character at every offset up to 400); tables refused at construction with 'Invalid route' are discarded and counted; non-trivial = table with >=1 wildcard and a layer applied after a merge, or a probe that is one edit away from a registered path; distinct by whole case"
    }
    fn strategy(&self, _t: Tier) -> BoxedStrategy<Case> {
        let probe = prop_oneof![
            3 => (any::<u16>(), 0u8..12, "[a-z0-9/]{0,6}").prop_map(|(pat, variant, tail)| Probe::FromPattern { pat, variant: if variant >= 8 { 0 } else { variant }, tail }),
            1 => weird().prop_map(Probe::Raw),
        ];
        (ops(2), prop::collection::vec(probe, 30)).prop_map(|(table, probes)| Case { table, probes }).boxed()
    }
    fn run(&self, c: &Case, obs: &mut Obs) -> Result<(), Fail> { check(c, obs) }
}

// ---------------------------------------------------------------- the same question asked over the wire

#[derive(Clone, Debug, Serialize, Deserialize, PartialEq, Eq, Hash)]
pub enum WireProbe {
    /// the route of generated method m, edited
    Method { m: u8, edit: u8, extra: String },
    Raw(String),
}

#[derive(Clone, Debug, Serialize, Deserialize, PartialEq, Eq, Hash)]
pub struct WireCase {
    pub probes: Vec<WireProbe>,
    /// Some(i): the network's service is the i-th GENERATED rpc server itself, without a Router in front
    #[serde(default)]
    pub direct: Option<u8>,
}

fn wire_route(p: &WireProbe) -> String {
    use crate::props::c17::{route_of, METHODS};
    match p {
        WireProbe::Raw(s) => s.clone(),
        WireProbe::Method { m, edit, extra } => {
            let r = route_of(METHODS[*m as usize % METHODS.len()]).0;
            let (svc, method) = r[1..].split_once('/').unwrap();
            match edit % 18 {
                0 | 1 => r.to_string(),
                2 => format!("/{svc}/{extra}/{method}"),
                3 => format!("/{svc}/{method}/{method}"),
                4 => format!("/{extra}/{method}"),
                5 => format!("/{svc}/{method}/"),
                6 => format!("/{svc}/{}", method.to_lowercase()),
                7 => format!("{svc}/{method}"),
                8 => format!("/{svc}//{method}"),
                9 => format!("/{svc}/{method}{extra}"),
                10 => format!("/{svc}/"),
                11 => format!("/{svc}"),
                13 => format!("/{svc}//{svc}/{method}"),
                14 => format!("/{svc}/{svc}/{method}"),
                15 => method.to_string(),
                16 => format!("/{method}"),
                17 => format!("/{svc}/{svc}/"),
                _ => format!("/{}/{method}", ["Echo", "a.b.Echo", "example.Greeter", "b.Echo", "Greeter"][extra.len() % 5]),
            }
        }
    }
}

pub struct OverTheWire;
impl Part for OverTheWire {
    type Case = WireCase;
    fn name(&self) -> &'static str { "over-the-wire" }
    fn rule(&self) -> &'static str {
        "a network whose service is a Router with an exact route, a wildcard route and the three GENERATED rpc services of the C17 family (12 methods) - or, in 3 of 10 cases, one of the generated servers serving directly without a Router; a remote peer sends 12 requests with generated route strings: the methods' own routes, edits of them (segment inserted, method repeated, other/unknown service prefix, trailing slash, case, missing leading slash, doubled slash, suffix, bare service prefix, the prefix repeated, the bare method name) and odd strings (empty, no slash, '//', NUL and control characters, unicode, 10^4 chars, long routes with a multi-byte character at every offset up to 400); oracle: every request gets a response (never a transport error); the handler method whose route equals the string runs exactly once, the exact/wildcard services answer theirs, and everything else gets NotFound and runs nothing; non-trivial = case with an edited method route or an odd string; distinct by case"
    }
    fn strategy(&self, _t: Tier) -> BoxedStrategy<WireCase> {
        let probe = prop_oneof![
            3 => (0u8..13, 0u8..18, prop_oneof![Just("v2".to_string()), Just("x".to_string()), "[a-zA-Z.]{0,6}"]).prop_map(|(m, edit, extra)| WireProbe::Method { m, edit, extra }),
            1 => weird().prop_map(WireProbe::Raw),
            1 => prop::sample::select(vec!["/exact", "/exact/", "/wild/", "/wild/a/b", "/wild", "/Exact"]).prop_map(|s| WireProbe::Raw(s.to_string())),
        ];
        (prop::collection::vec(probe, 12), prop::option::weighted(0.3, 0u8..3)).prop_map(|(probes, direct)| WireCase { probes, direct }).boxed()
    }
    fn run(&self, case: &WireCase, obs: &mut Obs) -> Result<(), Fail> {
        use crate::props::c17::{self, route_of, METHODS};
        use crate::simnet::*;
        let case = case.clone();
        run_sim(5, 1, |sim| async move {
            let log = c17::Log::default();
            let counter: Arc<Vec<AtomicU32>> = Arc::new((0..2).map(|_| AtomicU32::new(0)).collect());
            let router = c17::router(&log)
                .route("/exact", Tagged { id: 0, counter: counter.clone() })
                .route("/wild/*rest", Tagged { id: 1, counter: counter.clone() });
            let spec = NodeSpec::new(0);
            let server = match case.direct.map(|d| d % 3) {
                None => sim.start_node(&spec, router),
                Some(0) => sim.start_node(&spec, c17::s1::echo_server::EchoServer::new(log.clone())),
                Some(1) => sim.start_node(&spec, c17::s2::echo_server::EchoServer::new(log.clone())),
                Some(_) => sim.start_node(&spec, c17::s3::greeter_server::GreeterServer::new(log.clone())),
            }.map_err(|e| Fail::Inconclusive(e.to_string()))?;
            let direct_prefix = case.direct.map(|d| ["/Echo/", "/a.b.Echo/", "/example.Greeter/"][d as usize % 3]);
            let a = sim.node(1)?;
            match within(20_000, a.net.connect(spec.addr)).await {
                Ok(Ok(_)) => {}
                _ => return Err(Fail::Inconclusive("connect failed".into())),
            }
            let msg = c17::Msg { id: 7, text: "hello".into(), blob: vec![1, 2, 3], poison: Default::default() };
            let mut interesting = false;
            for (i, p) in case.probes.iter().enumerate() {
                let route = wire_route(p);
                let method = METHODS.iter().find(|m| route_of(m).0 == route && direct_prefix.map_or(true, |p| route.starts_with(p)));
                let body = match method {
                    Some(m) if route_of(m).1 => serde_json::to_vec(&msg).unwrap(),
                    _ => bincode::serialize(&msg).unwrap(),
                };
                let before_log = log.invoked().len();
                let before: Vec<u32> = counter.iter().map(|c| c.load(Ordering::SeqCst)).collect();
                let shown: String = route.chars().take(60).collect();
                let resp = match within(10_000, a.net.rpc(server.peer_id(), Request::new(Bytes::from(body)).with_route(route.clone()))).await {
                    Ok(Ok(r)) => r,
                    other => vfail!("c16:no-response", "probe {i}: a request with route {:?} ({} bytes) got no response: {:?}", shown, route.len(), other.map(|r| r.map(|_| ()).map_err(|e| e.to_string()))),
                };
                let ran: Vec<String> = log.invoked()[before_log..].to_vec();
                let tagged: Vec<u32> = counter.iter().zip(&before).map(|(c, b)| c.load(Ordering::SeqCst) - b).collect();
                let want_tag = if case.direct.is_some() { None } else if route == "/exact" { Some(0) } else if route.starts_with("/wild/") { Some(1) } else { None };
                match (method, want_tag) {
                    (Some(m), _) => {
                        vensure!(ran == vec![m.to_string()] && tagged == vec![0, 0], "c16:wrong-service", "probe {i}: route {:?} ran handlers {:?} (and plain services {:?}), expected exactly {m}", shown, ran, tagged);
                        vensure!(resp.status() == StatusCode::Success, "c16:matched-status", "probe {i}: route {:?} reached {m} but the status is {}", shown, resp.status().to_u16());
                        obs.label("wire:method-route");
                    }
                    (None, Some(t)) => {
                        vensure!(ran.is_empty() && tagged[t] == 1 && tagged[1 - t] == 0, "c16:wrong-service", "probe {i}: route {:?} ran handlers {:?} / plain services {:?}", shown, ran, tagged);
                        obs.label("wire:plain-route");
                    }
                    (None, None) => {
                        vensure!(ran.is_empty() && tagged == vec![0, 0], "c16:unmatched-dispatched", "probe {i}: route {:?} matches nothing, yet handlers {:?} / plain services {:?} ran", shown, ran, tagged);
                        vensure!(resp.status() == StatusCode::NotFound, "c16:unmatched-status", "probe {i}: route {:?} matches nothing but the status is {}", shown, resp.status().to_u16());
                        obs.label("wire:unmatched");
                        interesting = true;
                    }
                }
            }
            sim.health()?;
            check_no_panics("while routing over the wire")?;
            drop(server);
            obs.evals(case.probes.len() as u64);
            if interesting { obs.nontrivial(&case); }
            Ok(())
        })
    }
}

pub fn run(tier: Tier) -> i32 {
    let mut ctx = Ctx::new("C16", tier);
    ctx.assume("reference matcher: exact equality / prefix test for '/x/*tail' (refmodel::routes), written from the property statement");
    ctx.assume("patterns are limited to the kinds the statement names (exact, wildcard tail, rpc service); ':param' patterns are not generated");
    ctx.run_part(Tables, tier.pick(40_000, 1_500_000));
    ctx.run_part(OverTheWire, tier.pick(4_000, 100_000));
    if tier == Tier::Thorough {
        crate::fuzzrun::campaign(&mut ctx, "router", 1_000_000);
    }
    ctx.finish()
}
