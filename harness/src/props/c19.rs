//! C19 — per-peer rate limit admits no more than the quota.
//!
//! governor's clock is the real monotonic clock and cannot be injected through the public API,
//! so cases cost real time and every admission is bracketed by two readings of one monotonic
//! clock; scheduling noise only widens brackets (fewer detections, never a false alarm).

use crate::core::*;
use crate::{vensure, vfail};
use anemo::rpc::Status;
use anemo::types::response::StatusCode;
use anemo::{PeerId, Request, Response};
use anemo_tower::rate_limit::{RateLimitLayer, WaitMode, WAIT_NANOS_HEADER};
use bytes::Bytes;
use futures::future::BoxFuture;
use proptest::prelude::*;
use serde::{Deserialize, Serialize};
use std::collections::BTreeMap;
use std::num::NonZeroU32;
use std::sync::{Arc, Mutex};
use std::task::{Context, Poll};
use std::time::{Duration, Instant};
use tower::{Layer, Service, ServiceExt};

#[derive(Clone, Debug, Serialize, Deserialize, PartialEq, Eq, Hash)]
pub enum Step {
    /// n requests of one peer, back-to-back or all at once
    Burst { peer: u8, n: u8, concurrent: bool },
    SleepMs(u8),
    /// a never-used peer asks for its whole burst while others may be exhausted
    FreshPeer,
    /// ReturnError only: exhaust a peer, take the hint, wait that long, retry
    HintProbe { peer: u8 },
    /// Block only: two never-used peers over quota at the same time, A with a long queue
    /// (burst + extra + 6 requests, issued first) and B with a short one (burst + extra)
    Contend { extra: u8 },
}

#[derive(Clone, Debug, Serialize, Deserialize, PartialEq, Eq, Hash)]
pub struct Case {
    pub period_ms: u8,
    pub burst: u8,
    pub block: bool,
    pub peers: u8,
    /// which byte of the 32-byte identity distinguishes the peers
    #[serde(default)]
    pub id_layout: u8,
    pub steps: Vec<Step>,
}

#[derive(Default)]
struct Shared {
    /// id -> time the request was seen inside the service
    inside: BTreeMap<u64, Instant>,
}

#[derive(Clone)]
struct Inner(Arc<Mutex<Shared>>);
impl Service<Request<Bytes>> for Inner {
    type Response = Response<Bytes>;
    type Error = Status;
    type Future = BoxFuture<'static, Result<Response<Bytes>, Status>>;
    fn poll_ready(&mut self, _: &mut Context<'_>) -> Poll<Result<(), Status>> {
        Poll::Ready(Ok(()))
    }
    fn call(&mut self, req: Request<Bytes>) -> Self::Future {
        let id: u64 = req.headers().get("id").and_then(|s| s.parse().ok()).unwrap_or(u64::MAX);
        self.0.lock().unwrap().inside.insert(id, Instant::now());
        Box::pin(async move { Ok(Response::new(Bytes::from(id.to_string()))) })
    }
}

/// Peer ids share all bytes but one; `layout` selects which byte tells peers apart (so that
/// keying on a prefix, suffix or digest of the id is visible).
fn pid(i: u8, layout: u8) -> PeerId {
    let mut id = [0xAB; 32];
    id[[0usize, 5, 8, 16, 31][layout as usize % 5]] = i.wrapping_add(1);
    PeerId(id)
}

#[derive(Clone, Debug)]
struct Outcome {
    id: u64,
    peer: u8,
    before: Instant,
    after: Instant,
    admitted: bool,
    wait_nanos: Option<Result<u128, String>>,
    status: Option<u16>,
}

async fn one<S>(svc: &S, shared: &Arc<Mutex<Shared>>, id: u64, peer: u8, layout: u8) -> Outcome
where
    S: Service<Request<Bytes>, Response = Response<Bytes>, Error = Status> + Clone,
{
    let req = Request::new(Bytes::new()).with_header("id", id.to_string()).with_extension(pid(peer, layout));
    let before = Instant::now();
    let r = svc.clone().oneshot(req).await;
    let after = Instant::now();
    let inside = shared.lock().unwrap().inside.contains_key(&id);
    match r {
        Ok(_) => Outcome { id, peer, before, after, admitted: inside, wait_nanos: None, status: Some(200) },
        Err(s) => Outcome {
            id,
            peer,
            before,
            after,
            admitted: inside,
            wait_nanos: s.headers().get(WAIT_NANOS_HEADER).map(|v| v.parse::<u128>().map_err(|_| v.clone())),
            status: Some(s.status().to_u16()),
        },
    }
}

pub fn check(case: &Case, obs: &mut Obs) -> Result<(), Fail> {
    let rt = tokio::runtime::Builder::new_current_thread().enable_time().build().unwrap();
    rt.block_on(check_async(case, obs))
}

async fn check_async(case: &Case, obs: &mut Obs) -> Result<(), Fail> {
    let period = Duration::from_millis(case.period_ms.max(2) as u64);
    let burst = case.burst.max(1) as u32;
    let quota = governor::Quota::with_period(period).unwrap().allow_burst(NonZeroU32::new(burst).unwrap());
    let mode = if case.block { WaitMode::Block } else { WaitMode::ReturnError };
    let shared = Arc::new(Mutex::new(Shared::default()));
    let layer = RateLimitLayer::new(quota, mode);
    let svc = layer.layer(Inner(shared.clone()));
    let svc2 = layer.layer(Inner(shared.clone())); // a second service from the same layer shares the quota
    let mut outcomes: Vec<Outcome> = Vec::new();
    let mut next_id = 0u64;
    let mut next_fresh = 100u8;
    let mut budget_block = (400 / case.period_ms.max(2) as u32).max(4); // keep Block cases short
    let mut saw_refusal = false;
    let mut contended = false;

    for step in &case.steps {
        match step {
            Step::SleepMs(ms) => tokio::time::sleep(Duration::from_millis(*ms as u64)).await,
            Step::Burst { peer, n, concurrent } => {
                let peer = *peer % case.peers.max(1);
                let mut n = *n as u32;
                if case.block {
                    n = n.min(budget_block);
                    budget_block -= n;
                }
                let ids: Vec<u64> = (0..n).map(|_| { let i = next_id; next_id += 1; i }).collect();
                let deadline = period * (n + 2) * 20 + Duration::from_secs(5);
                let run = async {
                    if *concurrent {
                        futures::future::join_all(ids.iter().enumerate().map(|(k, id)| one(if k % 2 == 0 { &svc } else { &svc2 }, &shared, *id, peer, case.id_layout))).await
                    } else {
                        let mut v = Vec::new();
                        for id in &ids {
                            v.push(one(&svc, &shared, *id, peer, case.id_layout).await);
                        }
                        v
                    }
                };
                match tokio::time::timeout(deadline, run).await {
                    Ok(v) => outcomes.extend(v),
                    Err(_) => vfail!("c19:block-starved", "Block mode: {n} requests of peer {peer} not all admitted within {:?} (period {:?}, burst {burst})", deadline, period),
                }
            }
            Step::FreshPeer => {
                let peer = next_fresh;
                next_fresh = next_fresh.wrapping_add(1);
                // a fresh peer's whole burst must be admitted at once, whatever others did
                let t0 = Instant::now();
                for _ in 0..burst {
                    let id = next_id;
                    next_id += 1;
                    let o = one(&svc, &shared, id, peer, case.id_layout).await;
                    vensure!(o.admitted && o.status == Some(200), "c19:peer-interference", "fresh peer refused/not admitted within its burst of {burst} (status {:?}) while other peers were active", o.status);
                    outcomes.push(o);
                }
                if case.block {
                    // must not have waited for anyone else's replenishment: generous real-time bound
                    let took = t0.elapsed();
                    if took > period * burst + Duration::from_millis(200) {
                        obs.label("fresh-peer-slow(noise?)");
                    }
                }
            }
            Step::Contend { extra } => {
                // ordering oracle, so only periods that dwarf scheduling noise; once per case
                if !case.block || case.period_ms < 15 || contended {
                    continue;
                }
                contended = true;
                let (pa, pb) = (next_fresh, next_fresh.wrapping_add(1));
                next_fresh = next_fresh.wrapping_add(2);
                let nb = burst + *extra as u32 % 3 + 1;
                let na = nb + 6;
                let ids_a: Vec<u64> = (0..na).map(|_| { let i = next_id; next_id += 1; i }).collect();
                let ids_b: Vec<u64> = (0..nb).map(|_| { let i = next_id; next_id += 1; i }).collect();
                let all = ids_a.iter().map(|id| (*id, pa)).chain(ids_b.iter().map(|id| (*id, pb)));
                let run = futures::future::join_all(all.map(|(id, p)| one(&svc, &shared, id, p, case.id_layout)));
                match tokio::time::timeout(period * (na + 4) * 4 + Duration::from_secs(5), run).await {
                    Ok(v) => outcomes.extend(v),
                    Err(_) => vfail!("c19:block-starved", "Block mode: two contending peers ({na} and {nb} requests) not all admitted (period {:?}, burst {burst})", period),
                }
                // B's last request is due after (nb - burst) periods, A's last one six periods later. B being
                // admitted only after ALL of A's requests means it waited for A's queue. The comparison is
                // about order, not durations; a scheduling stall (which can also reorder expired timers) is
                // recognised by a gap in A's own admissions and makes the step inconclusive.
                let inside = shared.lock().unwrap().inside.clone();
                let b_last = ids_b.iter().filter_map(|id| inside.get(id)).max().copied();
                let mut a_times: Vec<Instant> = ids_a.iter().filter_map(|id| inside.get(id)).copied().collect();
                a_times.sort();
                let stalled = a_times.windows(2).any(|w| w[1].duration_since(w[0]) > period * 5 / 2);
                if stalled {
                    obs.label("contend:scheduling-stall(skipped)");
                } else if let (Some(b_last), Some(a_last)) = (b_last, a_times.last().copied()) {
                    vensure!(b_last < a_last, "c19:peer-interference", "Block mode, period {:?}, burst {burst}: peer B's last of {nb} requests was admitted {:?} AFTER the last of peer A's {na} requests (both started together; B's own quota admits it six periods earlier, and A's admissions show no scheduling stall): B waited for A's queue", period, b_last.duration_since(a_last));
                    obs.label("two-peers-blocked-at-once");
                }
            }
            Step::HintProbe { peer } => {
                if case.block {
                    continue;
                }
                let peer = *peer % case.peers.max(1);
                // exhaust
                let mut refusal = None;
                for _ in 0..(burst + 2) {
                    let id = next_id;
                    next_id += 1;
                    let o = one(&svc, &shared, id, peer, case.id_layout).await;
                    let refused = !o.admitted;
                    outcomes.push(o.clone());
                    if refused {
                        refusal = Some(o);
                        break;
                    }
                }
                if let Some(o) = refusal {
                    if let Some(Ok(h)) = o.wait_nanos {
                        // waiting as long as the hint says must be enough for this peer
                        tokio::time::sleep(Duration::from_nanos(h as u64) + Duration::from_micros(200)).await;
                        let id = next_id;
                        next_id += 1;
                        let o2 = one(&svc, &shared, id, peer, case.id_layout).await;
                        vensure!(o2.admitted, "c19:hint-too-small", "peer waited the hinted {h} ns after a refusal and was refused again (period {:?}, burst {burst})", period);
                        outcomes.push(o2);
                    }
                }
            }
        }
    }

    // ---- oracles over the whole history ----
    let inside = shared.lock().unwrap().inside.clone();
    let mut zero_hints = 0;
    for o in &outcomes {
        match o.status {
            Some(200) => vensure!(o.admitted, "c19:ok-without-service", "request {} returned Ok without reaching the service", o.id),
            Some(429) => {
                saw_refusal = true;
                vensure!(!case.block, "c19:block-refused", "Block mode refused request {} with TooManyRequests", o.id);
                vensure!(!o.admitted, "c19:refused-reached-service", "refused request {} reached the service", o.id);
                match &o.wait_nanos {
                    None => vfail!("c19:no-hint", "TooManyRequests without a wait-nanos header"),
                    Some(Err(v)) => vfail!("c19:bad-hint", "wait-nanos {:?} is not a decimal integer", v),
                    Some(Ok(h)) => {
                        vensure!(*h <= (period.as_nanos() * 2), "c19:hint-too-large", "wait-nanos {h} exceeds two periods ({:?})", period);
                        if *h == 0 {
                            zero_hints += 1;
                        }
                    }
                }
            }
            other => vfail!("c19:unexpected-status", "request {} ended with status {:?}", o.id, other),
        }
    }
    // the hint is positive (F7: before /repo 1ab4be0 it could be 0 when the next cell freed up between
    // the limiter's decision and the clock reading the hint was computed from)
    let refusals = outcomes.iter().filter(|o| o.status == Some(429)).count();
    vensure!(zero_hints == 0, "c19:zero-hint", "{zero_hints} of {refusals} refusals carried wait-nanos 0 (the hint must be positive)");

    // GCRA envelope per peer: admissions certainly inside [a,b] <= burst + (b-a)/period + 1
    let mut per_peer: BTreeMap<u8, Vec<(Instant, Instant)>> = BTreeMap::new();
    for o in outcomes.iter().filter(|o| o.admitted) {
        let t_in = inside[&o.id];
        per_peer.entry(o.peer).or_default().push((o.before, t_in));
    }
    for (peer, adm) in &per_peer {
        for (a, _) in adm {
            for (_, b) in adm {
                if b < a {
                    continue;
                }
                let cnt = adm.iter().filter(|(x, y)| x >= a && y <= b).count() as u128;
                let allowed = burst as u128 + (b.duration_since(*a).as_nanos() / period.as_nanos()) + 1;
                vensure!(cnt <= allowed, "c19:over-quota", "peer {peer}: {cnt} admissions certainly within a window of {:?}; quota allows at most {allowed} (burst {burst}, period {:?})", b.duration_since(*a), period);
            }
        }
    }
    // lower bound that does not depend on timing: the first `burst` requests of every peer are admitted
    for p in 0..case.peers {
        let firsts: Vec<&Outcome> = outcomes.iter().filter(|o| o.peer == p).take(burst as usize).collect();
        for o in firsts {
            vensure!(o.admitted, "c19:refused-within-burst", "peer {p}: request {} is among its first {burst} and was refused", o.id);
        }
    }
    obs.evals(outcomes.len() as u64);
    obs.label(if case.block { "mode:block" } else { "mode:return-error" });
    let blocked = case.block && outcomes.iter().any(|o| o.after.duration_since(o.before) > period / 2);
    if saw_refusal { obs.label("saw-refusal"); }
    if blocked { obs.label("saw-blocked-wait"); }
    if (saw_refusal || blocked) && per_peer.len() >= 2 {
        obs.nontrivial(case);
    }
    Ok(())
}

pub struct Histories;
impl Part for Histories {
    type Case = Case;
    fn name(&self) -> &'static str { "histories" }
    fn rule(&self) -> &'static str {
        "quotas with period 2-50 ms and burst 1-8, 1-4 peers, both wait modes, two services from one layer; scripts of back-to-back/concurrent bursts, sleeps, fresh-peer probes and hint probes run in REAL time; each admission bracketed [before call, inside service]; oracle: per-peer GCRA envelope over every window, refusals never reach the service and carry a parseable wait-nanos in 1 ns ..= 2 periods, waiting the hinted time suffices, first `burst` requests of every peer admitted, fresh peers unaffected by exhausted ones, Block mode admits everything, and (Block, period >= 15 ms) of two peers blocked at once the one with the short queue is served before the other's longer queue has drained (ordering oracle; steps in which the long queue's own admissions show a scheduling stall are skipped and counted); non-trivial = demand exceeded the quota (refusal or blocked wait) with >=2 peers active; distinct by script"
    }
    fn deterministic(&self) -> bool { false }
    fn strategy(&self, _t: Tier) -> BoxedStrategy<Case> {
        let step = prop_oneof![
            6 => (0u8..4, 1u8..13, any::<bool>()).prop_map(|(peer, n, concurrent)| Step::Burst { peer, n, concurrent }),
            3 => (0u8..25).prop_map(Step::SleepMs),
            1 => Just(Step::FreshPeer),
            1 => (0u8..4).prop_map(|peer| Step::HintProbe { peer }),
            1 => (0u8..3).prop_map(|extra| Step::Contend { extra }),
        ];
        (2u8..50, 1u8..9, any::<bool>(), 1u8..5, 0u8..5, prop::collection::vec(step, 1..10))
            .prop_map(|(period_ms, burst, block, peers, id_layout, steps)| Case { period_ms, burst, block, peers, id_layout, steps })
            .boxed()
    }
    fn run(&self, c: &Case, obs: &mut Obs) -> Result<(), Fail> { check(c, obs) }
}

// ---------------------------------------------------------------- the hint of a refusal is positive

#[derive(Clone, Debug, Serialize, Deserialize, PartialEq, Eq, Hash)]
pub struct HintCase {
    pub period_us: u16,
    pub burst: u8,
    /// requests sent back to back
    pub n: u32,
    /// competing busy threads (preemption between the limiter's decision and the hint's clock reading)
    pub noise_threads: u8,
}

pub struct HintRace;
impl Part for HintRace {
    type Case = HintCase;
    fn name(&self) -> &'static str { "hint-race" }
    fn deterministic(&self) -> bool { false }
    fn rule(&self) -> &'static str {
        "ReturnError mode, quotas replenishing every 30-800 us, one peer sending 20 000-80 000 requests back to back in REAL time (optionally with busy threads competing for the cores), so that refusals happen arbitrarily close to the instant the next cell frees up; oracle: every refusal carries wait-nanos >= 1 (a 0 tells the refused caller that no wait is needed); non-trivial = case with >= 1000 refusals; distinct by case"
    }
    fn strategy(&self, _t: Tier) -> BoxedStrategy<HintCase> {
        (30u16..800, 1u8..4, 20_000u32..80_000, 0u8..3).prop_map(|(period_us, burst, n, noise_threads)| HintCase { period_us, burst, n, noise_threads }).boxed()
    }
    fn run(&self, c: &HintCase, obs: &mut Obs) -> Result<(), Fail> {
        let quota = governor::Quota::with_period(Duration::from_micros(c.period_us.max(1) as u64)).unwrap().allow_burst(NonZeroU32::new(c.burst.max(1) as u32).unwrap());
        let shared = Arc::new(Mutex::new(Shared::default()));
        let svc = RateLimitLayer::new(quota, WaitMode::ReturnError).layer(Inner(shared.clone()));
        let stop = Arc::new(std::sync::atomic::AtomicBool::new(false));
        let noise: Vec<_> = (0..c.noise_threads).map(|_| { let stop = stop.clone(); std::thread::spawn(move || { let mut x = 0u64; while !stop.load(std::sync::atomic::Ordering::Relaxed) { x = x.wrapping_mul(6364136223846793005).wrapping_add(1); std::hint::black_box(x); } }) }).collect();
        let rt = tokio::runtime::Builder::new_current_thread().enable_time().build().unwrap();
        let (refusals, zeros) = rt.block_on(async {
            let (mut refusals, mut zeros) = (0u32, 0u32);
            for i in 0..c.n {
                let req = Request::new(Bytes::new()).with_header("id", i.to_string()).with_extension(pid(0, 0));
                if let Err(s) = svc.clone().oneshot(req).await {
                    refusals += 1;
                    if s.headers().get(WAIT_NANOS_HEADER).map(|v| v.as_str()) == Some("0") { zeros += 1; }
                }
            }
            (refusals, zeros)
        });
        stop.store(true, std::sync::atomic::Ordering::Relaxed);
        for t in noise { let _ = t.join(); }
        obs.evals(c.n as u64);
        vensure!(zeros == 0, "c19:zero-hint", "{zeros} of {refusals} refusals (period {} us, burst {}) carried wait-nanos 0: the refused caller is told that no wait is needed", c.period_us, c.burst);
        if refusals >= 1000 { obs.nontrivial(c); }
        Ok(())
    }
}

pub fn run(tier: Tier) -> i32 {
    let mut ctx = Ctx::new("C19", tier);
    ctx.assume("governor's DefaultClock is real monotonic time and not injectable: cases run in real time; brackets make the envelope check conservative under scheduling noise");
    ctx.assume("not a pure function of the seed: a replay re-runs the saved script several times and reports the hit rate");
    ctx.run_part(Histories, tier.pick(600, 60_000));
    ctx.run_part_threads(HintRace, tier.pick(48, 6_000), 8);
    ctx.finish()
}
