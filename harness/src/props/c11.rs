//! C11 — request deadline = min(local default, timeout header), end to end through `Network`.

use crate::core::*;
use crate::refmodel::deadline::{self, Outcome};
use crate::simnet::*;
use crate::{vensure, vfail};
use proptest::prelude::*;
use serde::{Deserialize, Serialize};

#[derive(Clone, Debug, Serialize, Deserialize, PartialEq, Eq, Hash)]
pub struct Call {
    pub from_a: bool,
    pub header: Option<String>,
    /// handler duration in ms; None = never finishes
    pub handler_ms: Option<u32>,
    /// executor stall: this many ms after the call starts the whole (virtual) clock jumps ahead
    /// by the second value at once, so that tasks are next polled with several timers already due
    #[serde(default)]
    pub stall: Option<(u16, u16)>,
    /// the handler spends its time in many waits of this many ms each (2-50) instead of one
    #[serde(default)]
    pub slice_ms: Option<u8>,
}

#[derive(Clone, Debug, Serialize, Deserialize, PartialEq, Eq, Hash)]
pub struct Case {
    /// (outbound default, inbound default) in ms for A and for B
    pub a: (Option<u32>, Option<u32>),
    pub b: (Option<u32>, Option<u32>),
    pub link_delay_ms: u8,
    pub calls: Vec<Call>,
    /// QUIC idle timeout (ms) on both ends, shorter than handlers and deadlines may be; keep-alives
    /// (a quarter of it) keep the connection up, so it must not influence any request deadline
    #[serde(default)]
    pub short_idle_ms: Option<u16>,
}

const MS: u64 = 1_000_000;

pub fn check(case: &Case, obs: &mut Obs) -> Result<(), Fail> {
    let case = case.clone();
    run_sim(1, case.link_delay_ms.max(1) as u64, |sim| async move {
        let mut sa = NodeSpec::new(0);
        sa.config.outbound_request_timeout_ms = case.a.0.map(|v| v as u64);
        sa.config.inbound_request_timeout_ms = case.a.1.map(|v| v as u64);
        let mut sb = NodeSpec::new(1);
        sb.config.outbound_request_timeout_ms = case.b.0.map(|v| v as u64);
        sb.config.inbound_request_timeout_ms = case.b.1.map(|v| v as u64);
        // long-lived connection regardless of how long handlers sleep
        for s in [&mut sa, &mut sb] {
            let q = s.config.quic.as_mut().unwrap();
            // normally long-lived whatever the handlers do; optionally an idle timeout shorter than handlers
            // and deadlines, kept alive by keep-alives (it must not influence any request deadline)
            q.max_idle_timeout_ms = Some(case.short_idle_ms.map_or(60_000, |v| v.max(800) as u64));
            q.keep_alive_interval_ms = Some(case.short_idle_ms.map_or(5_000, |v| v.max(800) as u64 / 4));
        }
        let a = sim.node_with(sa)?;
        let b = sim.node_with(sb)?;
        match within(20_000, a.net.connect(b.addr())).await {
            Ok(Ok(_)) => {}
            other => return Err(Fail::Inconclusive(format!("connect failed: {:?}", other.map(|r| r.map_err(|e| e.to_string()))))),
        }
        for _ in 0..200 {
            if b.net.peers().contains(&a.id()) { break; }
            sleep_ms(5).await;
        }
        let l = case.link_delay_ms.max(1) as u64 * MS;
        let rtt = 2 * l;
        let tol = 2 * l + 3 * MS; // boundary band: 2 x link delay (+ timer granularity)
        let mut nontrivial = false;
        for (i, c) in case.calls.iter().enumerate() {
            let (caller, callee) = if c.from_a { (&a, &b) } else { (&b, &a) };
            let (out_default, in_default) = if c.from_a { (case.a.0, case.b.1) } else { (case.b.0, case.a.1) };
            let pred = deadline::predict(
                out_default.map(|v| v as u64 * MS),
                in_default.map(|v| v as u64 * MS),
                c.header.as_deref(),
                c.handler_ms.map(|v| v as u64 * MS),
                rtt,
                tol,
            );
            if pred.allowed.is_empty() {
                // no deadline anywhere and a handler that never finishes: excluded by construction
                obs.label("excluded:unbounded");
                continue;
            }
            let horizon = 300_000 * MS;
            if [pred.t_success, pred.t_request_timeout, pred.t_caller_timeout].iter().flatten().all(|t| *t > horizon) {
                // nothing is due within the virtual horizon of the harness: not run, counted
                obs.label("excluded:beyond-horizon");
                continue;
            }
            let ctl = Ctl { id: i as u64, delay_ms: c.handler_ms.unwrap_or(0), status_idx: 0, resp_len: 10, resp_hdrs: 0, mode: if c.handler_ms.is_none() { 1 } else { c.slice_ms.map_or(0, |s| s.clamp(2, 50)) } };
            let mut req = ctl_request("/c11", &[], &ctl, 64);
            if let Some(h) = &c.header {
                req.headers_mut().insert("timeout".into(), h.clone());
            }
            let t0 = sim.fabric.now_us() * 1000;
            // (a stall longer than a short idle timeout would simply kill the connection: not combined)
            let stall = if case.short_idle_ms.is_some() { None } else { c.stall };
            let staller = stall.map(|(at, len)| tokio::spawn(async move {
                sleep_ms(at as u64).await;
                tokio::time::advance(std::time::Duration::from_millis(len as u64)).await;
            }));
            let res = within(400_000, caller.net.rpc(callee.id(), req)).await;
            let t1 = sim.fabric.now_us() * 1000;
            let took = t1 - t0;
            if let Some(h) = staller {
                // with a stall only the direction "a handler needing less is answered normally" is decided
                h.abort();
                let stall_ns = stall.map_or(0, |(_, len)| len as u64 * MS);
                let handler_ns = c.handler_ms.map(|v| v as u64 * MS);
                // a handler made of many short waits is itself held up by the stall (its remaining waits
                // only start when the executor resumes); a single wait is not
                let handler_ns = handler_ns.map(|h| if c.slice_ms.is_some() { h + stall_ns } else { h });
                let fits_server = match (handler_ns, pred.ds) { (Some(h), Some(ds)) => h + tol < ds, (Some(_), None) => true, (None, _) => false };
                let fits_caller = match (handler_ns, pred.dc) { (Some(h), Some(dc)) => h + stall_ns + rtt + tol + 5 * MS < dc, (Some(_), None) => true, (None, _) => false };
                match &res {
                    Err(()) => vfail!("c11:no-deadline-applied", "call {i} ({c:?}) produced no result within 400 virtual seconds"),
                    Ok(r) => {
                        let ok = matches!(r, Ok(resp) if resp.status().to_u16() == 200);
                        if fits_server && fits_caller {
                            vensure!(ok, "c11:cut-off-although-handler-needed-less", "call {i} ({c:?}; out-default {:?} ms, in-default {:?} ms): the handler needs less than both deadlines (Ds={:?} Dc={:?} ns) and finished before them, yet the call ended with {} once the stalled executor resumed", out_default, in_default, pred.ds, pred.dc, match r { Ok(resp) => format!("status {}", resp.status().to_u16()), Err(e) => format!("error {e}") });
                            nontrivial = true;
                            obs.label("stalled:handler-done-and-deadline-due-at-the-same-poll");
                        } else {
                            obs.label("stalled:undecided");
                        }
                    }
                }
                sleep_ms(case.link_delay_ms as u64 * 2 + 5).await;
                continue;
            }
            let res = match res {
                Ok(r) => r,
                Err(()) => vfail!("c11:no-deadline-applied", "call {i} ({c:?}) produced no result within 400 virtual seconds; expected {:?} (Dc={:?} Ds={:?} ns)", pred.allowed, pred.dc, pred.ds),
            };
            let got = match &res {
                Ok(r) if r.status().to_u16() == 200 => Outcome::Success,
                Ok(r) if r.status().to_u16() == 408 => Outcome::RequestTimeout,
                Ok(r) => vfail!("c11:status", "call {i}: unexpected status {}", r.status().to_u16()),
                Err(_) => Outcome::CallerTimeout,
            };
            vensure!(pred.allowed.contains(&got), "c11:outcome", "call {i} ({c:?}; out-default {:?} ms, in-default {:?} ms, link {} ms): got {:?} after {} ms{}, the deadline rule allows {:?} (Dc={:?} Ds={:?} ns)",
                out_default, in_default, case.link_delay_ms, got, took / MS, res.as_ref().err().map(|e| format!(" [{e}]")).unwrap_or_default(), pred.allowed, pred.dc, pred.ds);
            let want_t = match got {
                Outcome::Success => pred.t_success,
                Outcome::RequestTimeout => pred.t_request_timeout,
                Outcome::CallerTimeout => pred.t_caller_timeout,
            };
            if let Some(w) = want_t {
                vensure!(took.abs_diff(w) <= tol, "c11:timing", "call {i} ({c:?}): {:?} after {} us, expected about {} us (tolerance {} us)", got, took / 1000, w / 1000, tol / 1000);
            }
            // the caller's own deadline is local and exact in virtual time: whatever the outcome,
            // no result may come back later than Dc (plus timer granularity)
            if let Some(dc) = pred.dc {
                vensure!(took <= dc.saturating_add(2 * MS), "c11:caller-deadline-exceeded", "call {i} ({c:?}; out-default {:?} ms): result {:?} came back after {} us, the calling side's deadline is {} us", out_default, got, took / 1000, dc / 1000);
            }
            // serving side: the handler is cut off at Ds, never later than the local default
            if let Some(start) = callee.rec.find(i as u64, Ev::Start) {
                // give the cancellation time to travel
                sleep_ms(case.link_delay_ms as u64 * 2 + 5).await;
                let end = callee.rec.snapshot().into_iter().find(|r| r.id == Some(i as u64) && r.ev != Ev::Start);
                let handler_ns = c.handler_ms.map(|v| v as u64 * MS);
                if let Some(ds) = pred.ds {
                    let needs_more = handler_ns.map_or(true, |h| h > ds.saturating_add(tol));
                    if needs_more {
                        match &end {
                            Some(e) if e.ev == Ev::Drop => {
                                let ran = (e.t_us - start.t_us) * 1000;
                                // the caller may have abandoned even earlier; never later than Ds
                                vensure!(ran <= ds.saturating_add(2 * MS), "c11:handler-overran", "call {i}: handler ran {} us, serving-side deadline is {} us", ran / 1000, ds / 1000);
                                if got == Outcome::RequestTimeout {
                                    vensure!(ran.saturating_add(2 * MS) >= ds, "c11:handler-cut-early", "call {i}: handler dropped after {} us, before its deadline {} us", ran / 1000, ds / 1000);
                                }
                            }
                            Some(e) => vfail!("c11:handler-not-dropped", "call {i}: handler needing more than Ds={} us ended with {:?} after {} us", ds / 1000, e.ev, (e.t_us - start.t_us)),
                            None => vfail!("c11:handler-not-dropped", "call {i}: handler needing more than Ds={} us is still running {} us after the call returned", ds / 1000, (sim.fabric.now_us() - start.t_us)),
                        }
                    }
                }
                if let (Some(d), Some(e)) = (in_default, &end) {
                    let ran = (e.t_us - start.t_us) * 1000;
                    vensure!(ran <= d as u64 * MS + 2 * MS, "c11:remote-extended-limit", "call {i}: handler ran {} us although the local inbound default is {} ms (header {:?})", ran / 1000, d, c.header);
                }
            } else if got != Outcome::CallerTimeout {
                vfail!("c11:no-handler", "call {i} returned {:?} but no handler started", got);
            }
            let h = deadline::parse_header(c.header.as_deref());
            let (local_c, local_s) = (out_default.map(|v| v as u64 * MS), in_default.map(|v| v as u64 * MS));
            if (h.is_some() && (local_c.map_or(false, |d| d != h.unwrap()) || local_s.map_or(false, |d| d != h.unwrap())))
                || (c.header.is_some() && h.is_none() && (local_c.is_some() || local_s.is_some()))
            {
                nontrivial = true;
            }
            obs.label(format!("outcome:{:?}", got));
            if c.header.is_some() && h.is_none() { obs.label("unparsable-header"); }
        }
        sim.health()?;
        check_no_panics("during deadline calls")?;
        obs.evals(case.calls.len() as u64);
        if nontrivial {
            obs.nontrivial(&case);
        }
        Ok(())
    })
}

fn header() -> BoxedStrategy<Option<String>> {
    prop_oneof![
        3 => Just(None),
        1 => Just(Some("0".to_string())),
        5 => (1u64..60_000).prop_map(|ms| Some((ms * MS).to_string())),
        1 => (1u64..5_000_000).prop_map(|ns| Some(ns.to_string())),
        1 => any::<u64>().prop_map(|n| Some(n.to_string())),
        1 => Just(Some(u64::MAX.to_string())),
        1 => Just(Some("18446744073709551616".to_string())),
        1 => prop::sample::select(vec!["-1", " 5", "5 ", "1e3", "abc", "", "0x10", "1.5", "١٢٣", "1_000", "99999999999999999999999"]).prop_map(|s| Some(s.to_string())),
        1 => "[ -~]{0,6}".prop_filter("'+' prefix is accepted by the std parser; ambiguous, not generated", |s| !s.starts_with('+')).prop_map(Some),
        1 => (1u64..2000).prop_map(|ms| Some(format!("000{}", ms * MS))),
    ]
    .boxed()
}

fn default_ms() -> BoxedStrategy<Option<u32>> {
    prop_oneof![2 => Just(None), 3 => (1u32..60_000).prop_map(Some), 1 => (1u32..50).prop_map(Some)].boxed()
}

pub struct Calls;
impl Part for Calls {
    type Case = Case;
    fn name(&self) -> &'static str { "calls" }
    fn rule(&self) -> &'static str {
        "two networks with generated outbound/inbound default timeouts (None, 1 ms..60 s) on both ends, a QUIC idle timeout of 60 s or (1 case in 4) of 0.8-4 s with keep-alives (shorter than many handlers and deadlines; it must not influence them), link delay 1-20 ms, 1-6 RPCs each with a generated timeout header (absent, 0, ms values, sub-ms values, any u64, u64::MAX, overflowing, non-numeric, padded, empty, leading zeros) and handler duration 0..120 s or never, spent in one wait or in many waits of 2-50 ms each (a handler that keeps being polled), optionally an executor stall (the virtual clock jumps 0.1-3 s at once 0-300 ms into the call, so the handler's completion and a deadline can become due at the same poll; then only 'a handler needing less than both deadlines is answered normally' is decided); oracle = refmodel::deadline (min over optional values; expected outcome in {Success, RequestTimeout, caller timeout} and virtual completion time), handler dropped at arrival+Ds, never later than the local inbound default; cases within 2x link delay of a boundary accept either neighbour; non-trivial = a default and a (parsable) header both present and different, or an unparsable header with a default; distinct by case"
    }
    fn strategy(&self, _t: Tier) -> BoxedStrategy<Case> {
        let handler = prop_oneof![
            2 => Just(Some(0u32)),
            5 => (0u32..3_000).prop_map(Some),
            2 => (3_000u32..120_000).prop_map(Some),
            1 => Just(None),
        ];
        // stalls: mostly "starts while the handler runs and ends after the deadline"
        let stall = prop_oneof![5 => Just(None), 2 => (0u16..300, 100u16..3000).prop_map(Some)];
        let call = (any::<bool>(), header(), handler, stall, prop::option::weighted(0.3, 2u8..50)).prop_map(|(from_a, header, handler_ms, stall, slice_ms)| Call { from_a, header, handler_ms, stall, slice_ms });
        ((default_ms(), default_ms()), (default_ms(), default_ms()), 1u8..21, prop::collection::vec(call, 1..7), prop::option::weighted(0.25, 800u16..4_000))
            .prop_map(|(a, b, link_delay_ms, calls, short_idle_ms)| Case { a, b, link_delay_ms, calls, short_idle_ms })
            .boxed()
    }
    fn run(&self, c: &Case, obs: &mut Obs) -> Result<(), Fail> { check(c, obs) }
}

// ---------------------------------------------------------------- calls queued behind the peer's stream limit

#[derive(Clone, Debug, Serialize, Deserialize, PartialEq, Eq, Hash)]
pub struct QueuedCase {
    /// max_concurrent_bidi_streams granted by the callee
    pub stream_limit: u8,
    /// handler duration of each concurrent call (ms); all calls start together
    pub handlers_ms: Vec<u32>,
    pub out_default_ms: Option<u32>,
    pub header_ms: Option<u32>,
    pub link_delay_ms: u8,
    /// the calling application's own outbound middleware lets only this many calls through at a time
    /// (the others wait inside that layer)
    #[serde(default)]
    pub app_gate: Option<u8>,
}

pub struct Queued;
impl Part for Queued {
    type Case = QueuedCase;
    fn name(&self) -> &'static str { "queued-calls" }
    fn rule(&self) -> &'static str {
        "callee grants 1-3 (or 100) concurrent request streams, and/or the calling application's own outbound middleware (Builder::outbound_request_layer) lets only 1-2 calls through at a time; 2-8 RPCs with slow handlers (0.2-6 s) start together on one connection, so some wait for stream credit or inside the application's layer; the caller has an outbound default and/or the calls carry a timeout header (50 ms-3 s); oracle: the calling side's deadline Dc = min(default, header) covers the whole call: every call returns no later than Dc (+ timer granularity), calls whose handler needs more than Dc end with an error; non-trivial = more calls than streams and at least one call still queued at its deadline; distinct by case"
    }
    fn strategy(&self, _t: Tier) -> BoxedStrategy<QueuedCase> {
        let ms = || prop_oneof![2 => 50u32..600, 1 => 600u32..3000];
        (prop_oneof![2 => 1u8..4, 1 => Just(100u8)], prop::collection::vec(200u32..6000, 2..9), prop::option::of(ms()), prop::option::of(ms()), 1u8..15, prop::option::weighted(0.4, 1u8..3))
            .prop_filter_map("needs a caller-side deadline", |(stream_limit, handlers_ms, out_default_ms, header_ms, link_delay_ms, app_gate)| {
                (out_default_ms.is_some() || header_ms.is_some()).then_some(QueuedCase { stream_limit, handlers_ms, out_default_ms, header_ms, link_delay_ms, app_gate })
            })
            .boxed()
    }
    fn run(&self, case: &QueuedCase, obs: &mut Obs) -> Result<(), Fail> {
        let case = case.clone();
        run_sim(3, case.link_delay_ms.max(1) as u64, |sim| async move {
            let mut sa = NodeSpec::new(0);
            sa.config.outbound_request_timeout_ms = case.out_default_ms.map(|v| v as u64);
            if let Some(p) = case.app_gate {
                sa.outbound_layer = Some(OutboundLayer { gate: Some(std::sync::Arc::new(tokio::sync::Semaphore::new(p.max(1) as usize))), add_header: None });
            }
            let mut sb = NodeSpec::new(1);
            sb.config.quic.as_mut().unwrap().max_concurrent_bidi_streams = Some(case.stream_limit as u64);
            for s in [&mut sa, &mut sb] {
                let q = s.config.quic.as_mut().unwrap();
                q.max_idle_timeout_ms = Some(60_000);
                q.keep_alive_interval_ms = Some(5_000);
            }
            let a = sim.node_with(sa)?;
            let b = sim.node_with(sb)?;
            match within(20_000, a.net.connect(b.addr())).await {
                Ok(Ok(_)) => {}
                _ => return Err(Fail::Inconclusive("connect failed".into())),
            }
            sleep_ms(4 * case.link_delay_ms as u64 + 10).await;
            let dc_ms = match (case.out_default_ms, case.header_ms) { (Some(a), Some(b)) => a.min(b), (Some(a), None) | (None, Some(a)) => a, (None, None) => return Ok(()) } as u64;
            let mut tasks = Vec::new();
            for (i, h) in case.handlers_ms.iter().enumerate() {
                let ctl = Ctl { id: i as u64, delay_ms: *h, status_idx: 0, resp_len: 10, resp_hdrs: 0, mode: 0 };
                let mut req = ctl_request("/c11q", &[], &ctl, 64);
                if let Some(h) = case.header_ms { req.headers_mut().insert("timeout".into(), (h as u64 * MS).to_string()); }
                let (net, peer, fabric) = (a.net.clone(), b.id(), sim.fabric.clone());
                tasks.push(tokio::spawn(async move {
                    let t0 = fabric.now_us();
                    let r = within(120_000, net.rpc(peer, req)).await;
                    (r.map(|r| r.map(|resp| resp.status().to_u16()).map_err(|e| e.to_string())), fabric.now_us() - t0)
                }));
            }
            let mut queued_at_deadline = 0;
            for (i, t) in tasks.into_iter().enumerate() {
                let (r, took_us) = t.await.map_err(|e| Fail::Inconclusive(format!("task: {e}")))?;
                let r = match r { Ok(r) => r, Err(()) => vfail!("c11:no-deadline-applied", "queued call {i} of {:?} produced no result within 120 virtual seconds (calling-side deadline {dc_ms} ms)", case) };
                vensure!(took_us <= dc_ms * 1000 + 2_000, "c11:caller-deadline-exceeded", "call {i} of {} started together (callee grants {} streams; handlers {:?} ms): result {:?} came back after {} us, the calling side's deadline is {} ms", case.handlers_ms.len(), case.stream_limit, case.handlers_ms, r, took_us, dc_ms);
                if case.handlers_ms[i] as u64 > dc_ms + 2 {
                    vensure!(!matches!(r, Ok(200)), "c11:outcome", "call {i}: handler needs {} ms, calling-side deadline {dc_ms} ms, yet the call succeeded", case.handlers_ms[i]);
                }
                if r.is_err() && b.rec.find(i as u64, Ev::Start).is_none() { queued_at_deadline += 1; }
            }
            sim.health()?;
            check_no_panics("during queued calls")?;
            obs.evals(case.handlers_ms.len() as u64);
            if queued_at_deadline > 0 { obs.label("a-call-was-still-waiting-for-a-stream-at-its-deadline"); }
            if case.handlers_ms.len() > case.stream_limit as usize && queued_at_deadline > 0 { obs.nontrivial(&case); }
            Ok(())
        })
    }
}

pub fn run(tier: Tier) -> i32 {
    let mut ctx = Ctx::new("C11", tier);
    ctx.assume("virtual time: tokio's paused clock; timer granularity 1 ms is inside the tolerance band");
    ctx.assume("headers with a leading '+' are not generated (accepted by the std integer parser; the statement does not say whether they are numeric)");
    ctx.run_part(Calls, tier.pick(15_000, 1_200_000));
    ctx.run_part(Queued, tier.pick(3_000, 300_000));
    ctx.finish()
}
