//! C20 — the authorization layer gates every request and the allow-list is exact.

use crate::core::*;
use crate::{vensure, vfail};
use anemo::types::response::StatusCode;
use anemo::{PeerId, Request, Response};
use anemo_tower::auth::{AllowedPeers, AuthorizeRequest, RequireAuthorizationLayer};
use bytes::Bytes;
use futures::future::BoxFuture;
use proptest::prelude::*;
use serde::{Deserialize, Serialize};
use std::collections::BTreeMap;
use std::convert::Infallible;
use std::future::Future;
use std::sync::{Arc, Mutex};
use std::task::{Context, Poll};
use tower::{Layer, Service};

#[derive(Clone, Debug, Serialize, Deserialize, PartialEq, Eq, Hash)]
pub enum Op {
    /// sender: None = no identity attached, Some(i) = identity i of the 6-id universe
    Call { clone: u8, sender: Option<u8>, key: u8 },
    Poll(u16),
    Drop(u16),
}

#[derive(Clone, Debug, Serialize, Deserialize, PartialEq, Eq, Hash)]
pub struct Case {
    /// bit i set = identity i is on the allow-list
    pub allow: u8,
    /// Some(salt): use a custom authorizer whose verdict and refusal response derive from
    /// the request's "key" header and this salt, instead of the allow-list
    pub custom: Option<u8>,
    pub clones: u8,
    #[serde(default)]
    pub id_layout: u8,
    pub ops: Vec<Op>,
}

/// Identities share all bytes but one; `layout` selects which byte tells them apart.
fn pid(i: u8, layout: u8) -> PeerId {
    let mut id = [0x77; 32];
    id[[0usize, 5, 8, 16, 31][layout as usize % 5]] = i.wrapping_add(1);
    PeerId(id)
}

#[derive(Default)]
struct Shared {
    invoked: BTreeMap<u64, u32>,
}

#[derive(Clone)]
struct Inner(Arc<Mutex<Shared>>);

impl Service<Request<Bytes>> for Inner {
    type Response = Response<Bytes>;
    type Error = Infallible;
    type Future = BoxFuture<'static, Result<Response<Bytes>, Infallible>>;
    fn poll_ready(&mut self, _: &mut Context<'_>) -> Poll<Result<(), Infallible>> {
        Poll::Ready(Ok(()))
    }
    fn call(&mut self, req: Request<Bytes>) -> Self::Future {
        // the invocation is the call itself: a service may start work before being polled
        let id: u64 = req.headers().get("id").and_then(|s| s.parse().ok()).unwrap_or(u64::MAX);
        *self.0.lock().unwrap().invoked.entry(id).or_insert(0) += 1;
        Box::pin(async move {
            // complete on the second poll so that futures can interleave
            let mut first = true;
            futures::future::poll_fn(move |_cx| {
                if first {
                    first = false;
                    Poll::Pending
                } else {
                    Poll::Ready(())
                }
            })
            .await;
            Ok(Response::new(Bytes::from(format!("inner-{id}"))).with_header("from", "inner"))
        })
    }
}

/// custom authorizer: a pure function of (key header, salt)
fn custom_verdict(key: u8, salt: u8) -> Result<(), (u16, Vec<(String, String)>, Vec<u8>)> {
    let h = (key as u32).wrapping_mul(2654435761).wrapping_add(salt as u32 * 40503) >> 7;
    if h % 3 == 0 {
        Ok(())
    } else {
        let status = [400u16, 404, 408, 429, 500, 505, 520, 200][(h % 8) as usize];
        let headers = (0..(h % 3)).map(|i| (format!("why{i}"), format!("k{key}s{salt}"))).collect();
        let body = format!("refused-{key}-{salt}").into_bytes();
        Err((status, headers, body))
    }
}

#[derive(Clone)]
struct Custom(u8);
impl AuthorizeRequest for Custom {
    fn authorize(&self, request: &mut Request<Bytes>) -> Result<(), Response<Bytes>> {
        let key: u8 = request.headers().get("key").and_then(|s| s.parse().ok()).unwrap_or(0);
        custom_verdict(key, self.0).map_err(|(status, headers, body)| {
            let mut r = Response::new(Bytes::from(body)).with_status(StatusCode::new(status).unwrap());
            for (k, v) in headers {
                r.headers_mut().insert(k, v);
            }
            r
        })
    }
}

enum Expect {
    Pass,
    Refuse { status: u16, exact: Option<(Vec<(String, String)>, Vec<u8>)> },
}

struct Live<F> {
    id: u64,
    fut: std::pin::Pin<Box<F>>,
    expect: Expect,
}

fn drive<A>(case: &Case, auth: A, obs: &mut Obs) -> Result<(), Fail>
where
    A: AuthorizeRequest + Clone,
{
    let shared = Arc::new(Mutex::new(Shared::default()));
    let layer = RequireAuthorizationLayer::new(auth);
    let base = layer.layer(Inner(shared.clone()));
    let mut clones: Vec<_> = (0..case.clones.max(1)).map(|_| base.clone()).collect();
    let waker = futures::task::noop_waker();
    let mut cx = Context::from_waker(&waker);
    let mut live = Vec::new();
    let mut next = 0u64;
    let (mut n_pass, mut n_refuse, mut interleaved) = (0, 0, false);

    macro_rules! poll_at {
        ($i:expr) => {{
            let i: usize = $i;
            let l: &mut Live<_> = &mut live[i];
            if let Poll::Ready(res) = l.fut.as_mut().poll(&mut cx) {
                let resp: Response<Bytes> = match res { Ok(r) => r, Err(_) => unreachable!() };
                let invoked = *shared.lock().unwrap().invoked.get(&l.id).unwrap_or(&0);
                match &l.expect {
                    Expect::Pass => {
                        vensure!(invoked == 1, "c20:accepted-not-invoked", "request {} was accepted but the service ran {} times", l.id, invoked);
                        vensure!(resp.body().as_ref() == format!("inner-{}", l.id).as_bytes(), "c20:response-mixup", "accepted request {} got body {:?}", l.id, resp.body());
                    }
                    Expect::Refuse { status, exact } => {
                        vensure!(invoked == 0, "c20:refused-but-invoked", "request {} was refused but the service ran", l.id);
                        vensure!(resp.status().to_u16() == *status, "c20:refusal-status", "refused request {}: status {} instead of {}", l.id, resp.status().to_u16(), status);
                        vensure!(resp.headers().get("from").is_none(), "c20:refusal-from-inner", "refusal carries the inner service's response");
                        if let Some((headers, body)) = exact {
                            let mut got: Vec<_> = resp.headers().iter().map(|(k, v)| (k.clone(), v.clone())).collect();
                            got.sort();
                            let mut want = headers.clone();
                            want.sort();
                            vensure!(got == want && resp.body().as_ref() == body.as_slice(), "c20:refusal-altered", "refusal response differs from the authorizer's: headers {:?} body {:?}", got, resp.body());
                        }
                    }
                }
                live.remove(i);
            }
        }};
    }

    for op in &case.ops {
        match op {
            Op::Call { clone, sender, key } => {
                let id = next;
                next += 1;
                let mut req = Request::new(Bytes::from(format!("req-{id}"))).with_header("id", id.to_string()).with_header("key", key.to_string());
                if let Some(s) = sender {
                    req = req.with_extension(pid(s % 6, case.id_layout));
                }
                let expect = match case.custom {
                    Some(salt) => match custom_verdict(*key, salt) {
                        Ok(()) => Expect::Pass,
                        Err((status, h, b)) => Expect::Refuse { status, exact: Some((h, b)) },
                    },
                    None => match sender {
                        None => Expect::Refuse { status: 500, exact: None },
                        Some(s) if case.allow & (1 << (s % 6)) != 0 => Expect::Pass,
                        Some(_) => Expect::Refuse { status: 404, exact: None },
                    },
                };
                match &expect {
                    Expect::Pass => n_pass += 1,
                    _ => n_refuse += 1,
                }
                if !live.is_empty() {
                    interleaved = true;
                }
                let n = clones.len();
                let svc = &mut clones[*clone as usize % n];
                let fut = svc.call(req);
                // the verdict is taken at call time: a refused request never reaches the service
                let invoked = *shared.lock().unwrap().invoked.get(&id).unwrap_or(&0);
                match &expect {
                    Expect::Pass => vensure!(invoked == 1, "c20:accepted-not-invoked", "request {id} should pass but the service was not called"),
                    _ => vensure!(invoked == 0, "c20:refused-but-invoked", "request {id} should be refused but the service was called"),
                }
                live.push(Live { id, fut: Box::pin(fut), expect });
            }
            Op::Poll(i) => {
                if !live.is_empty() {
                    poll_at!(idx(*i, live.len()));
                }
            }
            Op::Drop(i) => {
                if !live.is_empty() {
                    let i = idx(*i, live.len());
                    live.remove(i);
                }
            }
        }
    }
    while !live.is_empty() {
        poll_at!(0);
    }
    obs.evals(next);
    obs.label(if case.custom.is_some() { "custom-authorizer" } else { "allow-list" });
    if n_pass > 0 && n_refuse > 0 && interleaved {
        obs.nontrivial(case);
    }
    Ok(())
}

pub fn check(case: &Case, obs: &mut Obs) -> Result<(), Fail> {
    match case.custom {
        Some(salt) => drive(case, Custom(salt), obs),
        None => {
            let peers = (0..6u8).filter(|i| case.allow & (1 << i) != 0).map(|i| pid(i, case.id_layout));
            drive(case, AllowedPeers::new(peers), obs)
        }
    }
}

pub struct Histories;
impl Part for Histories {
    type Case = Case;
    fn name(&self) -> &'static str { "histories" }
    fn rule(&self) -> &'static str {
        "allow-lists over a 6-id universe (all 64 subsets reachable) or a custom authorizer whose verdict/refusal response is a pure function of a request header; requests with sender listed/unlisted/absent through 1-4 clones of the layered service, futures polled/dropped in generated order; oracle: inner service called iff accepted (checked at call time and at completion), refusal == authorizer's response exactly (status/headers/body), allow-list: NotFound / InternalServerError; non-trivial = history with accepted and refused requests whose futures overlap; distinct by history"
    }
    fn strategy(&self, _t: Tier) -> BoxedStrategy<Case> {
        let op = prop_oneof![
            5 => (0u8..4, prop::option::weighted(0.85, 0u8..6), any::<u8>()).prop_map(|(clone, sender, key)| Op::Call { clone, sender, key }),
            4 => any::<u16>().prop_map(Op::Poll),
            1 => any::<u16>().prop_map(Op::Drop),
        ];
        (0u8..64, prop::option::weighted(0.4, any::<u8>()), 1u8..5, 0u8..5, prop::collection::vec(op, 1..40))
            .prop_map(|(allow, custom, clones, id_layout, ops)| Case { allow, custom, clones, id_layout, ops })
            .boxed()
    }
    fn run(&self, c: &Case, obs: &mut Obs) -> Result<(), Fail> { check(c, obs) }
}

pub fn run(tier: Tier) -> i32 {
    let mut ctx = Ctx::new("C20", tier);
    ctx.assume("an invocation of the wrapped service is its `call` (a tower service may start work in call)");
    ctx.run_part(Histories, tier.pick(40_000, 60_000_000));
    ctx.finish()
}
