//! C10 — inbound admission follows peer affinity and the connection limit.

use crate::core::*;
use crate::simnet::*;
use crate::{vensure, vfail};
use anemo::types::{PeerAffinity, PeerInfo};
use proptest::prelude::*;
use serde::{Deserialize, Serialize};
use crate::simnet::adversary as adv;
use std::collections::{BTreeMap, BTreeSet};
use std::sync::{Arc, Mutex};

#[derive(Clone, Copy, Debug, Serialize, Deserialize, PartialEq, Eq, Hash)]
pub enum Aff {
    High,
    Allowed,
    Never,
    Unknown,
}

#[derive(Clone, Debug, Serialize, Deserialize, PartialEq, Eq, Hash)]
pub enum Op {
    /// a currently disconnected dialer connects to the listener
    Arrive(u16),
    /// a currently connected dialer connects again (second connection of the same peer)
    ArriveAgain(u16),
    /// the listener explicitly dials a disconnected / an already connected dialer
    ListenerDials(u16),
    ListenerDialsConnected(u16),
    DisconnectByListener(u16),
    DisconnectByDialer(u16),
    /// change the listener's table entry for a dialer
    SetAffinity(u8, Aff),
    /// High affinity with a usable address: the listener must dial it in the background
    SetHighWithAddress(u8),
    /// a stranger (raw QUIC endpoint, valid certificate, not in the table) completes TLS with the
    /// listener and then closes (0: at once, 1: after 30 ms) without ever completing anemo's
    /// acknowledgement: never an established connection, so it must not use up a slot
    BrokenArrive(u8),
    /// the listener explicitly dials an address where nobody answers: the dial stays pending for
    /// its connect timeout (10 s) while the history goes on
    ListenerDialsDead,
}

#[derive(Clone, Debug, Serialize, Deserialize, PartialEq, Eq, Hash)]
pub struct Case {
    pub limit: Option<u8>,
    pub dialers: u8,
    pub initial: Vec<Aff>,
    pub ops: Vec<Op>,
    /// the listener's max_concurrent_outstanding_connecting_connections (a cap on its own background dials)
    #[serde(default)]
    pub outstanding_cap: Option<u8>,
}

const INTERVAL_MS: u64 = 400;

fn set_aff(l: &Node, d: &Node, aff: Aff, with_addr: bool) {
    match aff {
        Aff::Unknown => {
            l.net.known_peers().remove(&d.id());
        }
        a => {
            let affinity = match a {
                Aff::High => PeerAffinity::High,
                Aff::Allowed => PeerAffinity::Allowed,
                _ => PeerAffinity::Never,
            };
            l.net.known_peers().insert(PeerInfo { peer_id: d.id(), affinity, address: if with_addr { vec![d.addr().into()] } else { vec![] } });
        }
    }
}

pub fn check(case: &Case, obs: &mut Obs) -> Result<(), Fail> {
    let case = case.clone();
    run_sim(31, 2, |sim| async move {
        let nd = case.dialers.clamp(2, 6);
        let mut ls = NodeSpec::new(0);
        ls.config.max_concurrent_connections = case.limit.map(|l| l as usize);
        ls.config.connectivity_check_interval_ms = Some(INTERVAL_MS);
        ls.config.connection_backoff_ms = Some(200);
        ls.config.max_connection_backoff_ms = Some(400);
        ls.config.max_concurrent_outstanding_connecting_connections = case.outstanding_cap.map(|c| c.max(1) as usize);
        let l = sim.node_with(ls)?;
        let mut ds = Vec::new();
        for i in 0..nd {
            ds.push(sim.node(i + 1)?);
        }
        // model
        let mut aff: BTreeMap<u8, (Aff, bool)> = BTreeMap::new(); // dialer -> (affinity, has address)
        let mut est: BTreeSet<u8> = BTreeSet::new();
        for i in 0..nd {
            let a = case.initial.get(i as usize).copied().unwrap_or(Aff::Unknown);
            aff.insert(i, (a, false));
            set_aff(&l, &ds[i as usize], a, false);
        }
        let limit = case.limit.map(|x| x as usize);
        let admit = |a: Aff, est_len: usize| match a {
            Aff::Never => false,
            Aff::High | Aff::Allowed => true,
            Aff::Unknown => limit.map_or(true, |lim| est_len < lim),
        };
        let (mut by_limit_with_outbound, mut bypass_at_limit, mut slot_reused, mut freed) = (false, false, false, false);
        let mut outbound: BTreeSet<u8> = BTreeSet::new();
        let (mut broken, mut failed_handshake_at_limit_cfg, mut arrival_after_failed) = (0u32, false, false);
        let (mut dead_dials, mut dial_pending_until, mut arrival_during_pending_dial) = (0u32, 0u64, false);

        for (step, op) in case.ops.iter().enumerate() {
            let disconnected: Vec<u8> = (0..nd).filter(|i| !est.contains(i)).collect();
            let connected: Vec<u8> = est.iter().copied().collect();
            let describe = format!("step {step} {op:?} (limit {:?}, established {:?}, table {:?})", case.limit, est, aff);
            match op {
                Op::Arrive(i) | Op::ArriveAgain(i) => {
                    let again = matches!(op, Op::ArriveAgain(_));
                    let pool: Vec<u8> = if again { connected.clone() } else { disconnected.clone() };
                    // peers the listener dials by itself are excluded: their arrival would race the background dial
                    let pool: Vec<u8> = pool.into_iter().filter(|d| !(aff[d].0 == Aff::High && aff[d].1)).collect();
                    if pool.is_empty() { continue; }
                    let d = pool[idx(*i, pool.len())];
                    let (a, _) = aff[&d];
                    let want = admit(a, est.len());
                    // half of the arrivals name the listener's identity (connect_with_peer_id)
                    let r = if *i % 2 == 1 { within(20_000, ds[d as usize].net.connect_with_peer_id(l.addr(), l.id())).await } else { within(20_000, ds[d as usize].net.connect(l.addr())).await };
                    let ok = match &r { Ok(Ok(_)) => true, Ok(Err(_)) => false, Err(()) => vfail!("c10:dial-hang", "{describe}: dialer's connect did not return") };
                    vensure!(ok == want, if ok { "c10:admitted-against-rule" } else { "c10:rejected-against-rule" },
                        "{describe}: dialer {d} with affinity {:?} arrived with {} established connections: connect ok={ok}, the rule says {}{}", a, est.len(), if want { "admit" } else { "reject" },
                        r.as_ref().ok().and_then(|r| r.as_ref().err()).map(|e| format!(" [{e}]")).unwrap_or_default());
                    if want && !again {
                        est.insert(d);
                    }
                    if a == Aff::Unknown && failed_handshake_at_limit_cfg { arrival_after_failed = true; }
                    if sim.now_ms() < dial_pending_until { arrival_during_pending_dial = true; }
                    if a == Aff::Unknown && limit.is_some() {
                        if !outbound.is_empty() && (est.len() + (!want) as usize) >= limit.unwrap() { by_limit_with_outbound = true; }
                        if want && freed { slot_reused = true; }
                    }
                    if matches!(a, Aff::High | Aff::Allowed) && limit.map_or(false, |lim| est.len() > lim || (est.len() == lim && !again)) { bypass_at_limit = true; }
                }
                Op::ListenerDials(i) | Op::ListenerDialsConnected(i) => {
                    let again = matches!(op, Op::ListenerDialsConnected(_));
                    let pool: Vec<u8> = if again { connected.clone() } else { disconnected.clone() };
                    // dialing a peer marked Never is not covered by the statement: excluded
                    let pool: Vec<u8> = pool.into_iter().filter(|d| aff[d].0 != Aff::Never && !(aff[d].0 == Aff::High && aff[d].1)).collect();
                    if pool.is_empty() { continue; }
                    let d = pool[idx(*i, pool.len())];
                    match within(20_000, l.net.connect(ds[d as usize].addr())).await {
                        Ok(Ok(p)) => vensure!(p == ds[d as usize].id(), "c10:dial-id", "{describe}: connect returned another id"),
                        other => vfail!("c10:explicit-dial-blocked", "{describe}: the listener's explicit dial to dialer {d} failed with {} established (limit {:?}): {:?}", est.len(), case.limit, other.map(|r| r.map_err(|e| e.to_string()))),
                    }
                    est.insert(d);
                    outbound.insert(d);
                }
                Op::DisconnectByListener(i) => {
                    if connected.is_empty() { continue; }
                    let d = connected[idx(*i, connected.len())];
                    l.net.disconnect(ds[d as usize].id()).map_err(|e| Fail::Inconclusive(e.to_string()))?;
                    vensure!(!l.net.peers().contains(&ds[d as usize].id()), "c10:disconnect-not-immediate", "{describe}: still listed right after disconnect");
                    est.remove(&d);
                    outbound.remove(&d);
                    freed = true;
                }
                Op::DisconnectByDialer(i) => {
                    if connected.is_empty() { continue; }
                    let d = connected[idx(*i, connected.len())];
                    ds[d as usize].net.disconnect(l.id()).map_err(|e| Fail::Inconclusive(e.to_string()))?;
                    est.remove(&d);
                    outbound.remove(&d);
                    freed = true;
                }
                Op::SetAffinity(d, a) => {
                    let d = *d % nd;
                    aff.insert(d, (*a, false));
                    set_aff(&l, &ds[d as usize], *a, false);
                }
                Op::SetHighWithAddress(_) if case.outstanding_cap.is_some() => {
                    // with a cap on outstanding connection attempts a pending dial may legitimately delay
                    // the background dial (that is C13's subject): not combined here
                    obs.label("excluded:background-dial-with-outstanding-cap");
                    continue;
                }
                Op::SetHighWithAddress(d) => {
                    let d = *d % nd;
                    aff.insert(d, (Aff::High, true));
                    set_aff(&l, &ds[d as usize], Aff::High, true);
                }
                Op::ListenerDialsDead => {
                    dead_dials += 1;
                    let net = l.net.clone();
                    let addr = node_addr(200 + (dead_dials % 50) as u8);
                    tokio::spawn(async move { let _ = net.connect(addr).await; });
                    dial_pending_until = sim.now_ms() + 10_000;
                }
                Op::BrokenArrive(kind) if *kind % 3 == 2 => {
                    // a stranger that never lets the listener open its acknowledgement stream: the
                    // listener's handshake runs into its connect timeout (10 s)
                    broken += 1;
                    let who = adv::Presented::honest(&key_seed(600 + broken as u64), "simnet");
                    let ep = adv::raw_endpoint(&sim.fabric, node_addr(100 + broken as u8), None).map_err(|e| Fail::Inconclusive(e.to_string()))?;
                    let mut cfg = adv::client_config(Some(&who), Arc::new(Mutex::new(Vec::new())));
                    let mut t = quinn::TransportConfig::default();
                    t.max_concurrent_uni_streams(0u8.into());
                    t.max_idle_timeout(Some(std::time::Duration::from_secs(30).try_into().unwrap()));
                    cfg.transport_config(Arc::new(t));
                    if let Ok(connecting) = ep.connect_with(cfg, l.addr(), "simnet") {
                        if let Ok(Ok(conn)) = within(10_000, connecting).await {
                            sleep_ms(10_500).await;
                            conn.close(0u32.into(), b"");
                            if limit.is_some() { failed_handshake_at_limit_cfg = true; }
                        }
                    }
                    ep.wait_idle().await;
                    drop(ep);
                }
                Op::BrokenArrive(kind) => {
                    broken += 1;
                    let who = adv::Presented::honest(&key_seed(600 + broken as u64), "simnet");
                    let ep = adv::raw_endpoint(&sim.fabric, node_addr(100 + broken as u8), None).map_err(|e| Fail::Inconclusive(e.to_string()))?;
                    let cfg = adv::client_config(Some(&who), Arc::new(Mutex::new(Vec::new())));
                    if let Ok(connecting) = ep.connect_with(cfg, l.addr(), "simnet") {
                        if let Ok(Ok(conn)) = within(10_000, connecting).await {
                            if *kind % 2 == 1 { sleep_ms(30).await; }
                            conn.close(0u32.into(), b"");
                            if limit.is_some() { failed_handshake_at_limit_cfg = true; }
                        }
                    }
                    ep.wait_idle().await;
                    drop(ep);
                }
            }
            // settle: longer than one connectivity-check interval plus connect time
            sleep_ms(2 * INTERVAL_MS + 300).await;
            // background dials: every High peer with an address is connected by now, whatever the limit
            for (d, (a, has_addr)) in &aff {
                if *a == Aff::High && *has_addr {
                    if !est.contains(d) && limit.map_or(false, |lim| est.len() >= lim) { bypass_at_limit = true; }
                    est.insert(*d);
                    outbound.insert(*d);
                }
            }
            let got: BTreeSet<u8> = (0..nd).filter(|i| l.net.peers().contains(&ds[*i as usize].id())).collect();
            vensure!(got == est, "c10:listing-differs-from-model", "{describe}: after settling the listener lists dialers {:?}, the admission rule gives {:?}", got, est);
            vensure!(l.net.peers().len() == est.len(), "c10:listing-differs-from-model", "{describe}: listener lists {} peers, model has {}", l.net.peers().len(), est.len());
            for i in 0..nd {
                let sees = ds[i as usize].net.peers().contains(&l.id());
                vensure!(sees == est.contains(&i), "c10:dialer-view", "{describe}: dialer {i} lists the listener = {sees}, model says {}", est.contains(&i));
            }
        }
        sim.health()?;
        check_no_panics("during admission history")?;
        obs.evals(case.ops.len() as u64);
        if by_limit_with_outbound { obs.label("limit-decided-with-outbound-counted"); }
        if bypass_at_limit { obs.label("affinity-bypass-at-limit"); }
        if slot_reused { obs.label("freed-slot-reused"); }
        if arrival_after_failed { obs.label("limit-decided-after-failed-handshake"); }
        if arrival_during_pending_dial { obs.label("arrival-while-an-outbound-dial-is-pending"); }
        if by_limit_with_outbound || bypass_at_limit || slot_reused || arrival_after_failed {
            obs.nontrivial(&case);
        }
        Ok(())
    })
}

pub struct Histories;
impl Part for Histories {
    type Case = Case;
    fn name(&self) -> &'static str { "admission-history" }
    fn rule(&self) -> &'static str {
        "a listener with limit in {None, 0..4} and an affinity table over 2-6 dialers (High/Allowed/Never/unknown, mutated at run time); histories of non-overlapping arrivals (also of already connected dialers), explicit dials by the listener (also to connected dialers), disconnects from either side, High-with-address entries that trigger background dials, strangers that complete TLS and close before anemo's acknowledgement or never let the listener open its acknowledgement stream until its connect timeout (never established: must not use up a slot), explicit dials of the listener to a dead address that stay pending for 10 s (optionally with max_concurrent_outstanding_connecting_connections of 1-2), half of the arrivals naming the listener's identity; settle after every step; oracle = admission model written from the documentation (Never => reject; High/Allowed => admit; else no limit or established < limit, counting both directions): dial result Ok <=> model admits, listener's listing == model after every step, every dialer's view agrees, explicit and background dials never blocked; excluded by construction: arrivals of peers the listener is dialing in the background, explicit dials to Never peers; non-trivial = an arrival decided by the limit while an outbound connection is counted, a High/Allowed/background bypass at the limit, a freed slot reused, or a limit decision after a failed inbound handshake; distinct by case"
    }
    fn strategy(&self, _t: Tier) -> BoxedStrategy<Case> {
        let aff = || prop_oneof![3 => Just(Aff::Unknown), 1 => Just(Aff::High), 1 => Just(Aff::Allowed), 1 => Just(Aff::Never)];
        let op = prop_oneof![
            6 => any::<u16>().prop_map(Op::Arrive),
            1 => any::<u16>().prop_map(Op::ArriveAgain),
            2 => any::<u16>().prop_map(Op::ListenerDials),
            1 => any::<u16>().prop_map(Op::ListenerDialsConnected),
            2 => any::<u16>().prop_map(Op::DisconnectByListener),
            2 => any::<u16>().prop_map(Op::DisconnectByDialer),
            2 => (0u8..6, aff()).prop_map(|(d, a)| Op::SetAffinity(d, a)),
            1 => (0u8..6).prop_map(Op::SetHighWithAddress),
            2 => (0u8..3).prop_map(Op::BrokenArrive),
            1 => Just(Op::ListenerDialsDead),
        ];
        (prop_oneof![1 => Just(None), 4 => (0u8..5).prop_map(Some)], 2u8..7, prop::collection::vec(aff(), 6), prop::collection::vec(op, 1..16), prop_oneof![3 => Just(None), 1 => (1u8..3).prop_map(Some)])
            .prop_map(|(limit, dialers, initial, ops, outstanding_cap)| Case { limit, dialers, initial, ops, outstanding_cap })
            .boxed()
    }
    fn run(&self, c: &Case, obs: &mut Obs) -> Result<(), Fail> { check(c, obs) }
}

pub fn run(tier: Tier) -> i32 {
    let mut ctx = Ctx::new("C10", tier);
    ctx.assume("arrivals are non-overlapping (the code documents the limit as approximate for truly simultaneous arrivals)");
    ctx.assume("the statement is read literally for a second connection of an already connected peer: it is counted like any other arrival");
    ctx.run_part(Histories, tier.pick(12_000, 700_000));
    ctx.finish()
}
