//! C04 — at most one connection per peer; events are an exact change log.

use crate::core::*;
use crate::refmodel::peerset::{self, AddOutcome, Event, Model, Origin};
use crate::simnet::bed::{bed_endpoint, connect_pair};
use crate::simnet::*;
use crate::{vensure, vfail};
use anemo::types::{DisconnectReason, PeerEvent};
use anemo::verif::active_peers::ActivePeersDriver;
use anemo::{ConnectionOrigin, PeerId};
use proptest::prelude::*;
use serde::{Deserialize, Serialize};
use std::collections::BTreeMap;
use tokio::sync::broadcast;

// ============================================================ (i) driver-level histories

#[derive(Clone, Debug, Serialize, Deserialize, PartialEq, Eq, Hash)]
pub enum DOp {
    Add { peer: u8, inbound: bool },
    Remove { peer: u8 },
    /// remove by stable id: `which` indexes all connections ever made for that peer (stale or current)
    RemoveStable { peer: u8, which: u16 },
    /// the remote end closes its end of the peer's current connection (the local set is not told)
    RemoteCloses { peer: u8 },
    Subscribe,
}

#[derive(Clone, Debug, Serialize, Deserialize, PartialEq, Eq, Hash)]
pub struct DCase {
    pub own_key: u8,
    pub peer_keys: Vec<u8>,
    pub ops: Vec<DOp>,
}

fn to_event(e: PeerEvent) -> (Event, Option<DisconnectReason>) {
    match e {
        PeerEvent::NewPeer(p) => (Event::New(p.0), None),
        PeerEvent::LostPeer(p, r) => (Event::Lost(p.0), Some(r)),
    }
}

struct Sub {
    rx: broadcast::Receiver<PeerEvent>,
    snapshot: Vec<[u8; 32]>,
    events: Vec<Event>,
    lagged: bool,
}

fn drain(sub: &mut Sub) {
    loop {
        match sub.rx.try_recv() {
            Ok(e) => sub.events.push(to_event(e).0),
            Err(broadcast::error::TryRecvError::Lagged(_)) => {
                sub.lagged = true;
            }
            Err(_) => break,
        }
    }
}

pub fn driver_case(case: &DCase, obs: &mut Obs) -> Result<(), Fail> {
    let case = case.clone();
    run_sim(51, 1, |sim| async move {
        let mut keys: Vec<u8> = Vec::new();
        for k in &case.peer_keys {
            if *k != case.own_key && !keys.contains(k) && keys.len() < 4 {
                keys.push(*k);
            }
        }
        if keys.is_empty() {
            return Ok(());
        }
        let me = bed_endpoint(&sim.fabric, 0, 500 + case.own_key as u64).map_err(|e| Fail::Inconclusive(e.to_string()))?;
        let mut peers = Vec::new();
        for (i, k) in keys.iter().enumerate() {
            peers.push(bed_endpoint(&sim.fabric, 1 + i as u8, 500 + *k as u64).map_err(|e| Fail::Inconclusive(e.to_string()))?);
        }
        let driver = ActivePeersDriver::new(me.id, 4096);
        let mut model = Model::new(me.id.0);
        // tag -> (peer idx, local end, remote end, stable id)
        let mut conns: Vec<(usize, quinn::Connection, quinn::Connection, usize)> = Vec::new();
        let mut expect_closed: Vec<bool> = Vec::new();
        let mut remote_closed: Vec<bool> = Vec::new();
        let mut subs: Vec<Sub> = Vec::new();
        let (rx, snap) = driver.subscribe();
        subs.push(Sub { rx, snapshot: snap.iter().map(|p| p.0).collect(), events: vec![], lagged: false });
        let (mut n_replace, mut n_stale, mut n_refused, mut n_dead_replaced) = (0, 0, 0, 0);

        for (step, op) in case.ops.iter().enumerate() {
            let what = format!("step {step} {op:?}");
            match op {
                DOp::Add { peer, inbound } => {
                    let pi = *peer as usize % peers.len();
                    if conns.iter().filter(|c| c.0 == pi).count() >= 6 {
                        continue;
                    }
                    let pair = if *inbound { connect_pair(&peers[pi], &me).await.map(|(d, l)| (l, d)) } else { connect_pair(&me, &peers[pi]).await };
                    let (local, remote) = pair.map_err(|e| Fail::Inconclusive(format!("bed connection: {e}")))?;
                    let origin = if *inbound { ConnectionOrigin::Inbound } else { ConnectionOrigin::Outbound };
                    let tag = conns.len() as u64;
                    let existing_dead = model.peers.get(&peers[pi].id.0).map_or(false, |(t, _)| remote_closed[*t as usize]);
                    let (pid, stable, kept) = driver.add(local.clone(), origin).map_err(|e| Fail::violation("c04:add-failed", format!("{what}: {e}")))?;
                    vensure!(pid == peers[pi].id, "c04:wrong-peer-id", "{what}: connection attributed to {pid}, remote is {}", peers[pi].id);
                    conns.push((pi, local, remote, stable));
                    expect_closed.push(false);
                    remote_closed.push(false);
                    let out = model.add(peers[pi].id.0, tag, if *inbound { Origin::Inbound } else { Origin::Outbound });
                    match out {
                        AddOutcome::Inserted => vensure!(kept, "c04:first-connection-refused", "{what}: first connection to a peer was not kept"),
                        AddOutcome::Replaced(old) => {
                            vensure!(kept, "c04:tie-break", "{what}: the rule keeps the NEW connection (own {} remote {}), the implementation refused it", me.id, peers[pi].id);
                            expect_closed[old as usize] = true;
                            n_replace += 1;
                            if existing_dead { n_dead_replaced += 1; }
                        }
                        AddOutcome::Refused => {
                            vensure!(!kept, "c04:tie-break", "{what}: the rule keeps the EXISTING connection (own {} remote {}), the implementation replaced it", me.id, peers[pi].id);
                            expect_closed[tag as usize] = true;
                            n_refused += 1;
                        }
                    }
                }
                DOp::Remove { peer } => {
                    let pi = *peer as usize % peers.len();
                    driver.remove(&peers[pi].id, DisconnectReason::Requested);
                    if let Some(t) = model.remove(&peers[pi].id.0) {
                        expect_closed[t as usize] = true;
                    }
                }
                DOp::RemoveStable { peer, which } => {
                    let pi = *peer as usize % peers.len();
                    let mine: Vec<usize> = (0..conns.len()).filter(|i| conns[*i].0 == pi).collect();
                    if mine.is_empty() { continue; }
                    let tag = mine[idx(*which, mine.len())];
                    driver.remove_with_stable_id(peers[pi].id, conns[tag].3, DisconnectReason::ConnectionClosed);
                    if model.remove_tag(&peers[pi].id.0, tag as u64) {
                        expect_closed[tag] = true;
                    } else {
                        n_stale += 1;
                    }
                }
                DOp::RemoteCloses { peer } => {
                    let pi = *peer as usize % peers.len();
                    if let Some((t, _)) = model.peers.get(&peers[pi].id.0) {
                        conns[*t as usize].2.close(9u32.into(), b"remote closes");
                        remote_closed[*t as usize] = true;
                        sleep_ms(20).await; // let the close reach the local end
                    }
                }
                DOp::Subscribe => {
                    let (rx, snap) = driver.subscribe();
                    subs.push(Sub { rx, snapshot: snap.iter().map(|p| p.0).collect(), events: vec![], lagged: false });
                }
            }
            // ---- invariants after every step
            let mut listing: Vec<[u8; 32]> = driver.peers().iter().map(|p| p.0).collect();
            listing.sort();
            let mut dedup = listing.clone();
            dedup.dedup();
            vensure!(dedup.len() == listing.len(), "c04:duplicate-in-listing", "{what}: listing contains duplicates");
            vensure!(listing == model.listing(), "c04:listing-differs-from-model", "{what}: listing {:?} != model {:?}", listing.iter().map(|p| hex::encode(&p[..3])).collect::<Vec<_>>(), model.listing().iter().map(|p| hex::encode(&p[..3])).collect::<Vec<_>>());
            vensure!(driver.len() == model.peers.len(), "c04:listing-differs-from-model", "{what}: len {} != model {}", driver.len(), model.peers.len());
            for (p, (t, _)) in &model.peers {
                let got = driver.get(&PeerId(*p));
                vensure!(got.map(|g| g.0) == Some(conns[*t as usize].3), "c04:wrong-connection-kept", "{what}: for peer {} the set holds connection {:?}, the rule keeps the one with stable id {}", hex::encode(&p[..3]), got, conns[*t as usize].3);
            }
            for (i, s) in subs.iter_mut().enumerate() {
                drain(s);
                if s.lagged { continue; }
                match peerset::replay(&s.snapshot, &s.events) {
                    Ok(l) => vensure!(l == model.listing(), "c04:snapshot-plus-events", "{what}: subscriber {i}: snapshot + events gives {} peers, listing has {}", l.len(), model.listing().len()),
                    Err(e) => vfail!("c04:events-not-a-change-log", "{what}: subscriber {i}: {e}"),
                }
            }
            // the subscriber from birth sees exactly the model's change log
            if !subs[0].lagged {
                vensure!(subs[0].events == model.log, "c04:event-log-differs", "{what}: event stream {:?} != model log {:?}", short(&subs[0].events), short(&model.log));
            }
            for (t, c) in conns.iter().enumerate() {
                let closed = c.1.close_reason().is_some();
                if expect_closed[t] {
                    vensure!(closed, "c04:connection-not-closed", "{what}: connection {t} was replaced/removed/refused but is still open");
                } else if !remote_closed[t] {
                    vensure!(!closed, "c04:live-connection-closed", "{what}: connection {t} is the registered one and was closed: {:?}", c.1.close_reason());
                }
            }
        }
        sim.health()?;
        obs.evals(case.ops.len() as u64);
        if n_replace > 0 { obs.label("replacement"); }
        if n_refused > 0 { obs.label("refused-by-tie-break"); }
        if n_stale > 0 { obs.label("stale-removal"); }
        if n_dead_replaced > 0 { obs.label("replaced-an-already-dead-connection"); }
        if n_replace > 0 || n_stale > 0 {
            obs.nontrivial(&case);
        }
        Ok(())
    })
}

fn short(v: &[Event]) -> Vec<String> {
    v.iter().map(|e| match e { Event::New(p) => format!("New({})", hex::encode(&p[..2])), Event::Lost(p) => format!("Lost({})", hex::encode(&p[..2])) }).collect()
}

pub struct DriverHistories;
impl Part for DriverHistories {
    type Case = DCase;
    fn name(&self) -> &'static str { "driver-histories" }
    fn rule(&self) -> &'static str {
        "the active-peer set driven directly (hook H6) with REAL quinn connections between raw endpoints using anemo's own TLS configs: histories of add (either origin) / remove / remove_with_stable_id (current and stale ids) / remote end closes / subscribe over 1-4 peers and up to 6 connections per peer; after every step: listing has no duplicates and equals the reference model (tie-break from the doc comment: keep the connection dialed by the greater id), the registered connection is the one the rule keeps, every subscriber's snapshot + events reproduces the listing and alternates, the birth subscriber sees exactly the model's change log, replaced/removed/refused connections are closed and the registered one is not; non-trivial = history with a replacement or a stale removal; distinct by history"
    }
    fn strategy(&self, _t: Tier) -> BoxedStrategy<DCase> {
        let op = prop_oneof![
            6 => (0u8..4, any::<bool>()).prop_map(|(peer, inbound)| DOp::Add { peer, inbound }),
            1 => (0u8..4).prop_map(|peer| DOp::Remove { peer }),
            3 => (0u8..4, any::<u16>()).prop_map(|(peer, which)| DOp::RemoveStable { peer, which }),
            2 => (0u8..4).prop_map(|peer| DOp::RemoteCloses { peer }),
            1 => Just(DOp::Subscribe),
        ];
        (0u8..8, prop::collection::vec(0u8..8, 1..5), prop::collection::vec(op, 1..24))
            .prop_map(|(own_key, peer_keys, ops)| DCase { own_key, peer_keys, ops })
            .boxed()
    }
    fn run(&self, c: &DCase, obs: &mut Obs) -> Result<(), Fail> { driver_case(c, obs) }
}

// ============================================================ (ii) real-thread stress

#[derive(Clone, Debug, Serialize, Deserialize, PartialEq, Eq, Hash)]
pub struct StressCase {
    pub seed: u64,
    pub threads: u8,
    pub mutations: u16,
}

pub fn stress_case(case: &StressCase, obs: &mut Obs) -> Result<(), Fail> {
    let case = case.clone();
    run_sim(53, 1, |sim| async move {
        let me = bed_endpoint(&sim.fabric, 0, 600).map_err(|e| Fail::Inconclusive(e.to_string()))?;
        let mut pool: Vec<(PeerId, quinn::Connection, ConnectionOrigin)> = Vec::new();
        let mut _remotes = Vec::new();
        let mut _eps = Vec::new();
        for i in 0..3u8 {
            let p = bed_endpoint(&sim.fabric, 1 + i, 601 + i as u64).map_err(|e| Fail::Inconclusive(e.to_string()))?;
            for inbound in [false, true, false, true] {
                let pair = if inbound { connect_pair(&p, &me).await.map(|(d, l)| (l, d)) } else { connect_pair(&me, &p).await };
                let (local, remote) = pair.map_err(|e| Fail::Inconclusive(e.to_string()))?;
                pool.push((p.id, local, if inbound { ConnectionOrigin::Inbound } else { ConnectionOrigin::Outbound }));
                _remotes.push(remote);
            }
            _eps.push(p);
        }
        let driver = ActivePeersDriver::new(me.id, 1 << 16);
        let done = std::sync::Arc::new(std::sync::atomic::AtomicBool::new(false));
        let seq = std::sync::Arc::new(std::sync::atomic::AtomicU64::new(0));
        let mut observers = Vec::new();
        for t in 0..case.threads.clamp(1, 7) {
            let driver = driver.clone();
            let done = done.clone();
            let seq = seq.clone();
            observers.push(std::thread::spawn(move || {
                let mut x = 0x9E37u64 + t as u64;
                let mut during_mutation = 0u64;
                loop {
                    let before = seq.load(std::sync::atomic::Ordering::SeqCst);
                    let (mut rx, snap) = driver.subscribe();
                    let after = seq.load(std::sync::atomic::Ordering::SeqCst);
                    if after != before || after % 2 == 1 { during_mutation += 1; }
                    let finished = done.load(std::sync::atomic::Ordering::SeqCst);
                    let mut events = Vec::new();
                    // list a few times, then re-subscribe; keep the last subscription for the final check
                    x = x.wrapping_mul(6364136223846793005).wrapping_add(1442695040888963407);
                    for _ in 0..(x >> 60) {
                        let mut l: Vec<_> = driver.peers();
                        l.sort();
                        let n = l.len();
                        l.dedup();
                        if l.len() != n { return Err("duplicate peer in a concurrent listing".to_string()); }
                    }
                    if finished {
                        loop {
                            match rx.try_recv() {
                                Ok(e) => events.push(to_event(e).0),
                                Err(broadcast::error::TryRecvError::Lagged(_)) => return Ok((during_mutation, true)),
                                Err(_) => break,
                            }
                        }
                        let snap: Vec<[u8; 32]> = snap.iter().map(|p| p.0).collect();
                        let mut fin: Vec<[u8; 32]> = driver.peers().iter().map(|p| p.0).collect();
                        fin.sort();
                        return match peerset::replay(&snap, &events) {
                            Ok(l) if l == fin => Ok((during_mutation, false)),
                            Ok(l) => Err(format!("snapshot + events gives {} peers, the final listing has {}", l.len(), fin.len())),
                            Err(e) => Err(e),
                        };
                    }
                    // a subscription taken while the mutator runs: collect until it is done, then compare
                    let snap: Vec<[u8; 32]> = snap.iter().map(|p| p.0).collect();
                    let mut lagged = false;
                    let mut spins = 0u32;
                    while !done.load(std::sync::atomic::Ordering::SeqCst) && spins < 2000 {
                        match rx.try_recv() {
                            Ok(e) => events.push(to_event(e).0),
                            Err(broadcast::error::TryRecvError::Lagged(_)) => { lagged = true; break; }
                            Err(_) => { spins += 1; std::thread::yield_now(); }
                        }
                    }
                    if lagged { continue; }
                    if done.load(std::sync::atomic::Ordering::SeqCst) {
                        loop {
                            match rx.try_recv() {
                                Ok(e) => events.push(to_event(e).0),
                                Err(broadcast::error::TryRecvError::Lagged(_)) => return Ok((during_mutation, true)),
                                Err(_) => break,
                            }
                        }
                        let mut fin: Vec<[u8; 32]> = driver.peers().iter().map(|p| p.0).collect();
                        fin.sort();
                        return match peerset::replay(&snap, &events) {
                            Ok(l) if l == fin => Ok((during_mutation, false)),
                            Ok(l) => Err(format!("subscription taken during mutations: snapshot + events gives {} peers, the final listing has {}", l.len(), fin.len())),
                            Err(e) => Err(format!("subscription taken during mutations: {e}")),
                        };
                    } else if let Err(e) = peerset::replay(&snap, &events) {
                        return Err(format!("subscription taken during mutations: {e}"));
                    }
                }
            }));
        }
        // the mutator: synchronous calls only, no await (the observers run on other OS threads)
        let mut x = case.seed | 1;
        for _ in 0..case.mutations {
            x ^= x << 13; x ^= x >> 7; x ^= x << 17;
            seq.fetch_add(1, std::sync::atomic::Ordering::SeqCst);
            let (pid, conn, origin) = &pool[(x % pool.len() as u64) as usize];
            match (x >> 8) % 4 {
                0 | 1 => { let _ = driver.add(conn.clone(), *origin); }
                2 => {
                    driver.remove(pid, DisconnectReason::Requested);
                    // removal is immediate, whatever other threads are doing with the set
                    if driver.get(pid).is_some() {
                        done.store(true, std::sync::atomic::Ordering::SeqCst);
                        vfail!("c04:remove-not-immediate", "remove() returned while the peer is still registered (other threads were listing/subscribing concurrently)");
                    }
                }
                _ => driver.remove_with_stable_id(*pid, conn.stable_id(), DisconnectReason::ConnectionClosed),
            }
            seq.fetch_add(1, std::sync::atomic::Ordering::SeqCst);
            if x & 0x30 == 0 { std::thread::yield_now(); }
        }
        done.store(true, std::sync::atomic::Ordering::SeqCst);
        let mut raced = 0;
        let mut lagged = 0;
        for o in observers {
            match o.join() {
                Ok(Ok((d, l))) => { raced += d; lagged += l as u32; }
                Ok(Err(e)) => vfail!("c04:concurrent-subscriber", "{e}"),
                Err(_) => return Err(Fail::Inconclusive("observer thread panicked".into())),
            }
        }
        if lagged > 0 { obs.label("subscriber-lagged"); }
        if raced > 0 {
            obs.label("subscription-taken-while-a-mutation-was-in-progress");
            obs.nontrivial(&case);
        }
        Ok(())
    })
}

pub struct ThreadStress;
impl Part for ThreadStress {
    type Case = StressCase;
    fn name(&self) -> &'static str { "thread-stress" }
    fn deterministic(&self) -> bool { false }
    fn rule(&self) -> &'static str {
        "the same set shared by 2-8 OS threads: one mutator applying 200-3000 add/remove/remove_with_stable_id calls over a pool of 12 real connections, the others subscribing and listing concurrently; every observer's last subscription: snapshot + its events == final listing, events alternate per peer, no concurrent listing contains duplicates; real threads: interleavings are sampled, not enumerated; non-trivial = a subscription was taken while a mutation was in progress (detected by sequence numbers); distinct by (seed, threads, mutations)"
    }
    fn strategy(&self, _t: Tier) -> BoxedStrategy<StressCase> {
        (any::<u64>(), 1u8..8, 200u16..3000).prop_map(|(seed, threads, mutations)| StressCase { seed, threads, mutations }).boxed()
    }
    fn run(&self, c: &StressCase, obs: &mut Obs) -> Result<(), Fail> { stress_case(c, obs) }
}

// ============================================================ (iii) network-level histories

#[derive(Clone, Debug, Serialize, Deserialize, PartialEq, Eq, Hash)]
pub enum NOp {
    Connect { from: u8, to: u8 },
    Disconnect { at: u8, peer: u8 },
    /// node crashes without closing anything (its datagrams vanish) and restarts with the same key
    CrashRestart { node: u8, down_ms: u16 },
    Partition { a: u8, b: u8, ms: u16 },
    Subscribe { at: u8 },
    Rpc { from: u8, to: u8 },
    /// `from` calls `to` with a handler that never finishes, then closes the connection; the
    /// handler at `to` is cancelled by the close
    SlowRpcThenClose { from: u8, to: u8 },
    /// `from` has a never-finishing call to `to` in flight through `Network::rpc` and dials `to`
    /// again: the connection is replaced under the call, which then fails; the replacement must
    /// stay registered
    SlowRpcThenRedial { from: u8, to: u8 },
    Wait(u16),
}

#[derive(Clone, Debug, Serialize, Deserialize, PartialEq, Eq, Hash)]
pub struct NCase {
    pub nodes: u8,
    pub idle_ms: u16,
    pub ops: Vec<NOp>,
}

struct NSub {
    at: usize,
    sub: Sub,
}

pub fn network_case(case: &NCase, obs: &mut Obs) -> Result<(), Fail> {
    let case = case.clone();
    run_sim(55, 2, |sim| async move {
        let n = case.nodes.clamp(2, 5) as usize;
        let spec = |i: u8| {
            let mut s = NodeSpec::new(i);
            let q = s.config.quic.as_mut().unwrap();
            q.max_idle_timeout_ms = Some(case.idle_ms.max(1000) as u64);
            q.keep_alive_interval_ms = Some(case.idle_ms.max(1000) as u64 / 4);
            s
        };
        let mut nodes: Vec<Node> = Vec::new();
        let mut subs: Vec<NSub> = Vec::new();
        for i in 0..n {
            let node = sim.node_with(spec(i as u8))?;
            let (rx, snap) = node.net.subscribe().map_err(|e| Fail::Inconclusive(e.to_string()))?;
            subs.push(NSub { at: i, sub: Sub { rx, snapshot: snap.iter().map(|p| p.0).collect(), events: vec![], lagged: false } });
            nodes.push(node);
        }
        let mut generation = vec![0u32; n];
        let (mut n_crash, mut n_replaced) = (0, 0);
        let mut n_slow_close = 0;
        let mut n_redial_under_call = 0;
        let mut graveyard: Vec<Node> = Vec::new();
        // checks that hold at every instant: run them after every step without awaiting in between
        fn check_all(nodes: &[Node], subs: &mut Vec<NSub>, generation: &[u32], sub_gen: &[u32], what: &str) -> Result<(), Fail> {
            for (i, node) in nodes.iter().enumerate() {
                let mut l: Vec<[u8; 32]> = node.net.peers().iter().map(|p| p.0).collect();
                l.sort();
                let mut d = l.clone();
                d.dedup();
                vensure!(d.len() == l.len(), "c04:duplicate-in-listing", "{what}: node {i} lists a peer twice");
                vensure!(!l.contains(&node.id().0), "c04:lists-itself", "{what}: node {i} lists itself");
            }
            for (k, s) in subs.iter_mut().enumerate() {
                if sub_gen[k] != generation[s.at] { continue; } // subscription of a crashed incarnation
                drain(&mut s.sub);
                if s.sub.lagged { continue; }
                let mut listing: Vec<[u8; 32]> = nodes[s.at].net.peers().iter().map(|p| p.0).collect();
                listing.sort();
                // no await between draining and listing: both reflect the same instant
                drain(&mut s.sub);
                match peerset::replay(&s.sub.snapshot, &s.sub.events) {
                    Ok(l) => vensure!(l == listing, "c04:snapshot-plus-events", "{what}: node {} subscriber {k}: snapshot + events gives {:?}, listing is {:?}", s.at, l.iter().map(|p| hex::encode(&p[..2])).collect::<Vec<_>>(), listing.iter().map(|p| hex::encode(&p[..2])).collect::<Vec<_>>()),
                    Err(e) => vfail!("c04:events-not-a-change-log", "{what}: node {} subscriber {k}: {e}", s.at),
                }
            }
            Ok(())
        }
        let mut sub_gen: Vec<u32> = vec![0; subs.len()];
        for (step, op) in case.ops.iter().enumerate() {
            let what = format!("step {step} {op:?}");
            match op {
                NOp::Connect { from, to } => {
                    let (f, t) = (*from as usize % n, *to as usize % n);
                    if f == t { continue; }
                    let addr = nodes[t].addr();
                    let _ = within(15_000, nodes[f].net.connect(addr)).await;
                }
                NOp::Disconnect { at, peer } => {
                    let (a, p) = (*at as usize % n, *peer as usize % n);
                    if a == p { continue; }
                    let pid = nodes[p].id();
                    let _ = nodes[a].net.disconnect(pid);
                    vensure!(!nodes[a].net.peers().contains(&pid), "c04:closed-peer-still-listed", "{what}: peer still listed right after disconnect");
                }
                NOp::CrashRestart { node, down_ms } => {
                    let i = *node as usize % n;
                    n_crash += 1;
                    // crash: from now on nothing from or to the old address is delivered and no close
                    // is ever sent (the old incarnation stays alive, untouched, until the case ends)
                    sim.fabric.set_blackhole(nodes[i].addr(), true);
                    sleep_ms(*down_ms as u64).await;
                    // restart with the SAME key on a fresh address
                    let mut s = spec(i as u8);
                    s.addr = node_addr(40 + n_crash as u8);
                    let fresh = sim.node_with(s)?;
                    let old = std::mem::replace(&mut nodes[i], fresh);
                    graveyard.push(old); // kept alive (never closed) until the case is over
                    generation[i] += 1;
                    let (rx, snap) = nodes[i].net.subscribe().map_err(|e| Fail::Inconclusive(e.to_string()))?;
                    subs.push(NSub { at: i, sub: Sub { rx, snapshot: snap.iter().map(|p| p.0).collect(), events: vec![], lagged: false } });
                    sub_gen.push(generation[i]);
                }
                NOp::Partition { a, b, ms } => {
                    let (a, b) = (*a % n as u8, *b % n as u8);
                    let t0 = sim.now_ms();
                    for (x, y) in [(a, b), (b, a)] {
                        sim.fabric.add_fault(FaultSeg { t0_ms: t0, t1_ms: t0 + *ms as u64, from: Some(x), to: Some(y), partition: true, ..Default::default() });
                    }
                }
                NOp::Subscribe { at } => {
                    let i = *at as usize % n;
                    if let Ok((rx, snap)) = nodes[i].net.subscribe() {
                        subs.push(NSub { at: i, sub: Sub { rx, snapshot: snap.iter().map(|p| p.0).collect(), events: vec![], lagged: false } });
                        sub_gen.push(generation[i]);
                    }
                }
                NOp::Rpc { from, to } => {
                    let (f, t) = (*from as usize % n, *to as usize % n);
                    if f == t { continue; }
                    let ctl = Ctl { id: step as u64, delay_ms: 0, status_idx: 0, resp_len: 4, resp_hdrs: 0, mode: 0 };
                    let _ = within(3_000, nodes[f].net.rpc(nodes[t].id(), ctl_request("/r", &[], &ctl, 30))).await;
                }
                NOp::SlowRpcThenClose { from, to } => {
                    let (f, t) = (*from as usize % n, *to as usize % n);
                    if f == t || !nodes[f].net.peers().contains(&nodes[t].id()) { continue; }
                    let id = 70_000 + step as u64;
                    let ctl = Ctl { id, delay_ms: 0, status_idx: 0, resp_len: 4, resp_hdrs: 0, mode: 1 };
                    let net = nodes[f].net.clone();
                    let target = nodes[t].id();
                    let call = tokio::spawn(async move { let _ = net.rpc(target, ctl_request("/slow", &[], &ctl, 30)).await; });
                    sleep_ms(50).await;
                    if nodes[t].rec.find(id, Ev::Start).is_none() { call.abort(); continue; }
                    let _ = nodes[f].net.disconnect(target);
                    sleep_ms(100).await;
                    call.abort();
                    n_slow_close += 1;
                    // the serving side has seen the connection closed: when it cancels the handler the
                    // peer must no longer be in its listing
                    match nodes[t].rec.snapshot().into_iter().find(|r| r.id == Some(id) && r.ev == Ev::Drop) {
                        Some(d) => vensure!(d.peer_listed != Some(true), "c04:closed-peer-still-listed", "{what}: node {t} cancelled the handler of a request from node {f} because the connection was closed, and still listed that peer at that moment"),
                        None => vfail!("c04:handler-survived-close", "{what}: node {t}'s handler for a request from node {f} is still running 100 ms after the connection was closed"),
                    }
                }
                NOp::SlowRpcThenRedial { from, to } => {
                    let (f, t) = (*from as usize % n, *to as usize % n);
                    if f == t || !nodes[f].net.peers().contains(&nodes[t].id()) { continue; }
                    let id = 80_000 + step as u64;
                    let ctl = Ctl { id, delay_ms: 0, status_idx: 0, resp_len: 4, resp_hdrs: 0, mode: 1 };
                    let net = nodes[f].net.clone();
                    let target = nodes[t].id();
                    let call = tokio::spawn(async move { net.rpc(target, ctl_request("/slow", &[], &ctl, 30)).await.map(|_| ()).map_err(|e| e.to_string()) });
                    sleep_ms(50).await;
                    if nodes[t].rec.find(id, Ev::Start).is_none() { call.abort(); continue; }
                    let redial = within(15_000, nodes[f].net.connect(nodes[t].addr())).await;
                    if !matches!(redial, Ok(Ok(_))) { call.abort(); continue; }
                    // the call on the replaced connection ends (with an error); nothing of that may touch the new one
                    let _ = within(2_000, call).await;
                    sleep_ms(300).await;
                    vensure!(nodes[f].net.peers().contains(&target), "c04:replacement-disturbed", "{what}: node {f} re-dialed node {t} successfully while a call was in flight on the old connection; 300 ms later it no longer lists node {t}");
                    n_redial_under_call += 1;
                }
                NOp::Wait(ms) => sleep_ms(*ms as u64).await,
            }
            check_all(&nodes, &mut subs, &generation, &sub_gen, &what)?;
        }
        // quiet tail longer than the idle timeout: half-open leftovers are gone, nothing else moves
        sleep_ms(case.idle_ms.max(1000) as u64 * 3).await;
        check_all(&nodes, &mut subs, &generation, &sub_gen, "after the quiet tail")?;
        for s in &subs {
            let mut seen_pairs = 0;
            for w in s.sub.events.windows(2) {
                if let (Event::Lost(a), Event::New(b)) = (&w[0], &w[1]) { if a == b { seen_pairs += 1; } }
            }
            n_replaced += seen_pairs;
        }
        sim.health()?;
        check_no_panics("during the connection history")?;
        obs.evals(case.ops.len() as u64);
        if n_crash > 0 { obs.label("crash-restart"); }
        if n_slow_close > 0 { obs.label("handler-cancelled-by-remote-close"); }
        if n_redial_under_call > 0 { obs.label("connection-replaced-under-a-call-in-flight"); }
        if n_replaced > 0 { obs.label("replacement-observed(Lost+New)"); }
        if n_crash > 0 || n_replaced > 0 {
            obs.nontrivial(&case);
        }
        Ok(())
    })
}

pub struct NetworkHistories;
impl Part for NetworkHistories {
    type Case = NCase;
    fn name(&self) -> &'static str { "network-histories" }
    fn rule(&self) -> &'static str {
        "2-5 networks on the fabric (idle timeout 1-8 s, keep-alive on): histories of connect / disconnect / crash-without-close + restart with the same key / pairwise partition / late subscribe / rpc / a never-finishing rpc followed by a close from the caller (the cancelled handler must see its peer already delisted) / a never-finishing rpc followed by a re-dial from the caller (the replacement must stay registered when the call on the old connection fails) / wait; after EVERY step and after a quiet tail of 3 idle timeouts, with no await between draining a subscriber and listing: no duplicates, no self entry, snapshot + events == listing for every subscriber of the live incarnation, events alternate per peer; model-free invariants only (which connection survives a crash/restart race is left open by the statement); non-trivial = history with a crash/restart or an observed replacement (Lost+New back to back); distinct by history"
    }
    fn strategy(&self, _t: Tier) -> BoxedStrategy<NCase> {
        let op = prop_oneof![
            6 => (0u8..5, 0u8..5).prop_map(|(from, to)| NOp::Connect { from, to }),
            2 => (0u8..5, 0u8..5).prop_map(|(at, peer)| NOp::Disconnect { at, peer }),
            2 => (0u8..5, 0u16..3000).prop_map(|(node, down_ms)| NOp::CrashRestart { node, down_ms }),
            1 => (0u8..5, 0u8..5, 100u16..6000).prop_map(|(a, b, ms)| NOp::Partition { a, b, ms }),
            1 => (0u8..5).prop_map(|at| NOp::Subscribe { at }),
            2 => (0u8..5, 0u8..5).prop_map(|(from, to)| NOp::Rpc { from, to }),
            2 => (0u8..5, 0u8..5).prop_map(|(from, to)| NOp::SlowRpcThenClose { from, to }),
            2 => (0u8..5, 0u8..5).prop_map(|(from, to)| NOp::SlowRpcThenRedial { from, to }),
            3 => prop_oneof![0u16..50, 50u16..3000].prop_map(NOp::Wait),
        ];
        (2u8..6, 1000u16..8000, prop::collection::vec(op, 1..25)).prop_map(|(nodes, idle_ms, ops)| NCase { nodes, idle_ms, ops }).boxed()
    }
    fn run(&self, c: &NCase, obs: &mut Obs) -> Result<(), Fail> { network_case(c, obs) }
}

pub fn run(tier: Tier) -> i32 {
    let mut ctx = Ctx::new("C04", tier);
    ctx.assume("driver level: the set is fed with real quinn connections through hook H6 exactly as the connection manager feeds it");
    ctx.assume("thread stress samples real interleavings (not a pure function of the seed); a lagged subscriber ends that subscriber's checks (counted)");
    ctx.run_part(DriverHistories, tier.pick(5_000, 800_000));
    ctx.run_part(NetworkHistories, tier.pick(2_000, 300_000));
    ctx.run_part_threads(ThreadStress, tier.pick(24, 2_000), 4);
    ctx.finish()
}

#[allow(dead_code)]
fn _unused(_: BTreeMap<u8, u8>) {}
