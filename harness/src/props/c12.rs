//! C12 — abandoned RPCs are cancelled remotely and leak nothing.

use crate::core::*;
use crate::simnet::recorder::expected_response;
use crate::simnet::*;
use crate::{vensure, vfail};
use proptest::prelude::*;
use serde::{Deserialize, Serialize};
use std::collections::HashMap;
use std::time::Duration;
use tower::ServiceBuilder;

#[derive(Clone, Debug, Serialize, Deserialize, PartialEq, Eq, Hash)]
pub struct Shape {
    pub req_len: u32,
    /// None = handler never finishes
    pub handler_ms: Option<u32>,
    pub resp_len: u32,
    pub link_delay_ms: u8,
    /// true: abandon through the request's timeout header (outbound layer drops the call);
    /// false: the application drops the future
    pub by_timeout: bool,
    /// callee service wrapped in tower ConcurrencyLimit(k) (poll_ready applies backpressure)
    pub concurrency_limit: Option<u8>,
}

fn start_pair(sim: &Sim, shape_limit: Option<u8>, stream_limit: Option<u64>, link: u8) -> Result<(Node, Node), Fail> {
    let _ = link;
    let mut sa = NodeSpec::new(0);
    let mut sb = NodeSpec::new(1);
    for s in [&mut sa, &mut sb] {
        let q = s.config.quic.as_mut().unwrap();
        q.max_idle_timeout_ms = Some(120_000);
        q.keep_alive_interval_ms = Some(10_000);
        q.max_concurrent_bidi_streams = stream_limit;
    }
    let a = sim.node_with(sa)?;
    // callee: recorder, optionally behind a concurrency limit
    let rec = Recorder::new(sim.fabric.epoch());
    let net = match shape_limit {
        Some(k) => {
            let svc = ServiceBuilder::new().concurrency_limit(k.max(1) as usize).service(rec.service());
            sim.start_node(&sb, svc)
        }
        None => sim.start_node(&sb, rec.service()),
    }
    .map_err(|e| Fail::Inconclusive(format!("start callee: {e}")))?;
    Ok((a, Node { net, rec, spec: sb }))
}

async fn connect(a: &Node, b: &Node) -> Result<(), Fail> {
    match within(20_000, a.net.connect(b.addr())).await {
        Ok(Ok(_)) => Ok(()),
        other => Err(Fail::Inconclusive(format!("connect failed: {:?}", other.map(|r| r.map_err(|e| e.to_string()))))),
    }
}

fn verify_ok(resp: &anemo::Response<bytes::Bytes>, route: &str, body: &bytes::Bytes) -> bool {
    let exp = expected_response(route, &HashMap::new(), body);
    resp.status().to_u16() == exp.status && resp.headers() == &exp.headers && resp.body() == &exp.body
}

/// One run: the victim RPC (id 1) is abandoned `abandon_us` after it started (None = never), a
/// sibling (id 2) started at the same time is not abandoned. Returns the reference timeline.
struct RunOut {
    event_times_us: Vec<u64>,
    handler_start_us: Option<u64>,
    handler_end_us: Option<u64>,
    done_us: Option<u64>,
}

fn one_run(shape: &Shape, abandon_us: Option<u64>, obs_label: &mut Vec<&'static str>) -> Result<RunOut, Fail> {
    let shape = shape.clone();
    let mut labels: Vec<&'static str> = Vec::new();
    let out = run_sim(3, shape.link_delay_ms.max(1) as u64, |sim| async move {
        let (a, b) = start_pair(&sim, shape.concurrency_limit, None, shape.link_delay_ms)?;
        connect(&a, &b).await?;
        sleep_ms(50).await;
        let baseline_clones = b.rec.live_clones();
        let ctl = Ctl { id: 1, delay_ms: shape.handler_ms.unwrap_or(0), status_idx: 0, resp_len: shape.resp_len, resp_hdrs: 0, mode: if shape.handler_ms.is_none() { 1 } else { 0 } };
        let mut req = ctl_request("/victim", &[], &ctl, shape.req_len as usize);
        if let (true, Some(t)) = (shape.by_timeout, abandon_us) {
            req.headers_mut().insert("timeout".into(), (t * 1000).to_string());
        }
        // the sibling: a quick call with a medium body that must not be disturbed
        let sib_ctl = Ctl { id: 2, delay_ms: 5, status_idx: 0, resp_len: 3000, resp_hdrs: 1, mode: 0 };
        let sib_req = ctl_request("/sibling", &[], &sib_ctl, 3000);
        let sib_body = sib_req.body().clone();
        let t_start = sim.fabric.now_us();
        sim.fabric.record_event_times(true);
        let sib_net = a.net.clone();
        let sib_target = b.id();
        let sibling = tokio::spawn(async move { within(7_200_000, sib_net.rpc(sib_target, sib_req)).await });
        let victim = a.net.rpc(b.id(), req);
        let mut done_us = None;
        match abandon_us {
            None => {
                // reference run: un-abandoned (bounded wait for never-finishing handlers)
                let r = within(if shape.handler_ms.is_none() { 3_000 } else { 300_000 }, victim).await;
                if let Ok(Ok(_)) = r {
                    done_us = Some(sim.fabric.now_us() - t_start);
                }
            }
            Some(t) if shape.by_timeout => {
                // the outbound layer abandons the call at the header's deadline
                let r = within(300_000, victim).await;
                let took = sim.fabric.now_us() - t_start;
                match r {
                    Ok(Err(_)) => {}
                    Ok(Ok(_)) => { /* completed before the deadline: allowed */ }
                    Err(()) => vfail!("c12:timeout-not-applied", "call with timeout header {t} us did not return"),
                }
                let _ = took;
            }
            Some(t) => {
                let r = tokio::time::timeout(Duration::from_micros(t), victim).await;
                drop(r); // the future is dropped here (if it had not finished)
            }
        }
        sim.fabric.record_event_times(false);
        let t_abandon = sim.fabric.now_us();
        // sibling must return its own correct response (in the un-abandoned reference run a
        // service with backpressure may legitimately keep it waiting behind the victim)
        if abandon_us.is_none() {
            sibling.abort();
        } else {
            match sibling.await {
                Ok(Ok(Ok(resp))) => vensure!(verify_ok(&resp, "/sibling", &sib_body), "c12:sibling-corrupted", "sibling RPC returned a wrong response after the victim was abandoned at {:?} us", abandon_us),
                other => vfail!("c12:sibling-failed", "sibling RPC (not abandoned) failed after the victim was abandoned at {:?} us: {:?}", abandon_us, other.map(|r| r.map(|r| r.map(|x| x.status().to_u16()).map_err(|e| e.to_string())))),
            }
        }
        let mut handler_start_us = None;
        let mut handler_end_us = None;
        if abandon_us.is_some() {
            // a started handler is dropped (not finished) promptly: within 1 s after the abandon
            tokio::time::sleep(Duration::from_millis(1_000)).await;
            let log = b.rec.snapshot();
            let start = log.iter().find(|r| r.id == Some(1) && r.ev == Ev::Start);
            let end = log.iter().find(|r| r.id == Some(1) && r.ev != Ev::Start);
            if let Some(s) = start {
                handler_start_us = Some(s.t_us.saturating_sub(t_start));
                match end {
                    None => vfail!("c12:handler-not-cancelled", "victim abandoned at {:?} us: its handler (started at +{} us) is still running 1 s later", abandon_us, s.t_us - t_start),
                    Some(e) if e.ev == Ev::Finish => {
                        // finishing is fine only if it finished before the cancellation could reach it.
                        // The cancellation (RESET_STREAM / STOP_SENDING) is ack-eliciting: when the request
                        // and its sibling have just filled the initial congestion window it is held back
                        // until the first acknowledgements return (one round trip), then travels one way.
                        let latest = t_abandon + 3 * shape.link_delay_ms as u64 * 1000 + 2_000;
                        vensure!(e.t_us <= latest, "c12:handler-ran-to-completion", "victim abandoned at +{} us but its handler ran to completion at +{} us", t_abandon - t_start, e.t_us - t_start);
                        handler_end_us = Some(e.t_us - t_start);
                    }
                    Some(e) => handler_end_us = Some(e.t_us - t_start),
                }
            }
            // nothing leaks: no handler instance and no service clone beyond the baseline survives
            vensure!(b.rec.count(Ev::Start) == b.rec.count(Ev::Drop) + b.rec.count(Ev::Finish), "c12:handler-leak", "starts {} != drops {} + finishes {}", b.rec.count(Ev::Start), b.rec.count(Ev::Drop), b.rec.count(Ev::Finish));
            // per-request resources are released: the callee holds no service clone for the abandoned call
            vensure!(b.rec.live_clones() <= baseline_clones, "c12:resources-held", "1 s after the abandon at {:?} us the callee still holds {} service clones (baseline {})", abandon_us, b.rec.live_clones(), baseline_clones);
            // a fresh RPC completes in normal time
            let fresh = Ctl { id: 3, delay_ms: 0, status_idx: 0, resp_len: 10, resp_hdrs: 0, mode: 0 };
            let t0 = sim.fabric.now_ms();
            match within(2_000, a.net.rpc(b.id(), ctl_request("/fresh", &[], &fresh, 40))).await {
                Ok(Ok(r)) if r.status().to_u16() == 200 => {}
                other => vfail!("c12:fresh-rpc-failed", "fresh RPC after an abandon at {:?} us: {:?}", abandon_us, other.map(|r| r.map(|x| x.status().to_u16()).map_err(|e| e.to_string()))),
            }
            let took = sim.fabric.now_ms() - t0;
            vensure!(took <= 4 * shape.link_delay_ms.max(1) as u64 + 20, "c12:fresh-rpc-slow", "fresh RPC took {took} ms after an abandon");
            vensure!(a.net.peers().contains(&b.id()) && b.net.peers().contains(&a.id()), "c12:connection-lost", "abandoning an RPC tore the connection down");
        } else {
            let log = b.rec.snapshot();
            handler_start_us = log.iter().find(|r| r.id == Some(1) && r.ev == Ev::Start).map(|r| r.t_us.saturating_sub(t_start));
            handler_end_us = log.iter().find(|r| r.id == Some(1) && r.ev == Ev::Finish).map(|r| r.t_us.saturating_sub(t_start));
        }
        sim.health()?;
        check_no_panics("while abandoning RPCs")?;
        let event_times_us = sim.fabric.event_times_us().into_iter().map(|t| t.saturating_sub(t_start)).collect();
        Ok::<_, Fail>(RunOut { event_times_us, handler_start_us, handler_end_us, done_us })
    })?;
    obs_label.append(&mut labels);
    Ok(out)
}

pub fn sweep(shape: &Shape, obs: &mut Obs) -> Result<(), Fail> {
    let mut labels = Vec::new();
    let reference = one_run(shape, None, &mut labels)?;
    // candidate abandon instants: every distinct fabric event time of the reference run, +-1 us, and 0
    let mut points: Vec<u64> = vec![0, 1];
    for t in &reference.event_times_us {
        points.push(t.saturating_sub(1));
        points.push(*t);
        points.push(*t + 1);
    }
    if let Some(d) = reference.done_us {
        points.retain(|p| *p <= d + 1000);
    }
    points.sort();
    points.dedup();
    // bound the work per shape: keep the first/last 12 and an even sample of the rest
    if points.len() > 64 {
        let n = points.len();
        let mut keep: Vec<u64> = points[..12].to_vec();
        keep.extend_from_slice(&points[n - 12..]);
        for k in 0..40 {
            keep.push(points[12 + k * (n - 24) / 40]);
        }
        keep.sort();
        keep.dedup();
        points = keep;
    }
    let (mut n_req, mut n_handler, mut n_resp) = (0, 0, 0);
    for p in &points {
        if shape.by_timeout && *p == 0 {
            // a zero timeout header means "already expired": covered by C11
        }
        one_run(shape, Some(*p), &mut labels)?;
        match (reference.handler_start_us, reference.handler_end_us) {
            (Some(s), _) if *p < s => n_req += 1,
            (Some(_), Some(e)) if *p > e => n_resp += 1,
            (Some(_), _) => n_handler += 1,
            (None, _) => n_req += 1,
        }
    }
    obs.evals(points.len() as u64);
    if n_req > 0 { obs.label("abandon-during-request-transmission"); }
    if n_handler > 0 { obs.label("abandon-during-handler"); }
    if n_resp > 0 { obs.label("abandon-during-response-transmission"); }
    if shape.concurrency_limit.is_some() { obs.label("service-with-backpressure"); }
    if n_req > 1 || n_handler > 0 || n_resp > 0 {
        obs.nontrivial(shape);
    }
    Ok(())
}

pub struct Sweeps;
impl Part for Sweeps {
    type Case = Shape;
    fn name(&self) -> &'static str { "abandon-sweep" }
    fn rule(&self) -> &'static str {
        "RPC shapes (request 10 B-2 MiB, handler 0-1000 s or never, response 10 B-2 MiB, link delay 1-20 ms, abandon by dropping the future or by timeout header, callee service optionally behind ConcurrencyLimit); a reference run records every distinct fabric event time; the RPC is then abandoned at each of those instants +-1 us and at 0 (enumerated; >64 points are thinned evenly, first/last 12 kept) with a concurrent sibling RPC; oracle: a started handler is dropped, not finished, within 1 s; starts = drops + finishes; sibling returns its own correct response; a fresh RPC completes in normal time; connection stays; non-trivial = abandon instants strictly inside request transmission, handler execution or response transmission (classified from the reference timeline); distinct by shape"
    }
    fn strategy(&self, _t: Tier) -> BoxedStrategy<Shape> {
        let sz = || prop_oneof![3 => 10u32..2_000, 2 => 2_000u32..100_000, 1 => 100_000u32..2_000_000];
        (sz(), prop_oneof![2 => (0u32..50).prop_map(Some), 2 => (50u32..5_000).prop_map(Some), 1 => (5_000u32..1_000_000).prop_map(Some), 1 => Just(None)], sz(), 1u8..21, any::<bool>(), prop::option::weighted(0.25, 1u8..4))
            .prop_map(|(req_len, handler_ms, resp_len, link_delay_ms, by_timeout, concurrency_limit)| Shape { req_len, handler_ms, resp_len, link_delay_ms, by_timeout, concurrency_limit })
            .boxed()
    }
    fn run(&self, c: &Shape, obs: &mut Obs) -> Result<(), Fail> { sweep(c, obs) }
}

// ---------------------------------------------------------------- long histories of abandoned calls

#[derive(Clone, Debug, Serialize, Deserialize, PartialEq, Eq, Hash)]
pub struct Abandoned {
    pub abandon_after_ms: u16,
    pub req_len: u32,
    /// handler duration; None = never
    pub handler_ms: Option<u32>,
    /// a sibling that is not abandoned is issued together with this call
    pub with_sibling: bool,
}

#[derive(Clone, Debug, Serialize, Deserialize, PartialEq, Eq, Hash)]
pub struct History {
    /// max_concurrent_bidi_streams on both ends (None = default 100)
    pub stream_limit: Option<u8>,
    pub concurrency_limit: Option<u8>,
    /// a long (finite) call that occupies the service while the history runs
    pub occupier_ms: Option<u16>,
    pub link_delay_ms: u8,
    /// how many times the list of calls is repeated (history length = calls.len() * repeat)
    pub repeat: u8,
    pub calls: Vec<Abandoned>,
    /// epilogue: calls whose handlers never end (or take 30 s) are started, abandoned, and in the
    /// same instant the connection is ended, so the abandonment reaches the callee only as the
    /// loss of the connection: 0 the caller disconnects, 1 the callee disconnects, 2 the caller shuts down
    #[serde(default)]
    pub ending: Option<u8>,
}

pub fn history(h: &History, obs: &mut Obs) -> Result<(), Fail> {
    let h = h.clone();
    run_sim(5, h.link_delay_ms.max(1) as u64, |sim| async move {
        let (a, b) = start_pair(&sim, h.concurrency_limit, h.stream_limit.map(|s| s.max(2) as u64), h.link_delay_ms)?;
        connect(&a, &b).await?;
        sleep_ms(50).await;
        let limit = h.stream_limit.map(|s| s.max(2) as usize).unwrap_or(100);
        let baseline_clones = b.rec.live_clones();
        let mut id = 10u64;
        let occupier = h.occupier_ms.map(|ms| {
            let ctl = Ctl { id: 5, delay_ms: ms as u32, status_idx: 0, resp_len: 20, resp_hdrs: 0, mode: 0 };
            let net = a.net.clone();
            let target = b.id();
            tokio::spawn(async move { within(600_000, net.rpc(target, ctl_request("/occupier", &[], &ctl, 40))).await })
        });
        let mut total = 0usize;
        let mut siblings = Vec::new();
        for _ in 0..h.repeat.max(1) {
            for c in &h.calls {
                id += 1;
                let ctl = Ctl { id, delay_ms: c.handler_ms.unwrap_or(0), status_idx: 0, resp_len: 50, resp_hdrs: 0, mode: if c.handler_ms.is_none() { 1 } else { 0 } };
                let req = ctl_request("/abandoned", &[], &ctl, c.req_len as usize);
                let fut = a.net.rpc(b.id(), req);
                if c.with_sibling {
                    id += 1;
                    let sctl = Ctl { id, delay_ms: 1, status_idx: 0, resp_len: 200, resp_hdrs: 0, mode: 0 };
                    let sreq = ctl_request("/sibling", &[], &sctl, 100);
                    let body = sreq.body().clone();
                    let net = a.net.clone();
                    let target = b.id();
                    siblings.push((id, body, tokio::spawn(async move { within(600_000, net.rpc(target, sreq)).await })));
                }
                let _ = tokio::time::timeout(Duration::from_millis(c.abandon_after_ms as u64), fut).await;
                total += 1;
            }
        }
        // while non-abandoned calls may still be running: 1 s after the last abandon the callee
        // holds per-request state only for calls that were not abandoned (<= 2 service clones each)
        sleep_ms(1_000 + 4 * h.link_delay_ms as u64).await;
        let unfinished = occupier.as_ref().map_or(0, |o| !o.is_finished() as i64) + siblings.iter().filter(|(_, _, s)| !s.is_finished()).count() as i64;
        let live = b.rec.live_clones();
        vensure!(live <= baseline_clones + 2 * unfinished, "c12:resources-held", "after {total} abandoned calls the callee holds {live} service clones; baseline {baseline_clones}, {unfinished} non-abandoned calls still in flight");
        if unfinished > 0 { obs.label("checked-resources-while-service-busy"); }
        // the occupier and every sibling finish with their own responses
        if let Some(o) = occupier {
            match o.await {
                Ok(Ok(Ok(r))) if r.status().to_u16() == 200 => {}
                other => vfail!("c12:sibling-failed", "the long non-abandoned call failed: {:?}", other.map(|r| r.map(|r| r.map(|x| x.status().to_u16()).map_err(|e| e.to_string())))),
            }
        }
        for (sid, body, s) in siblings {
            match s.await {
                Ok(Ok(Ok(resp))) => vensure!(verify_ok(&resp, "/sibling", &body), "c12:sibling-corrupted", "sibling {sid} got a wrong response"),
                other => vfail!("c12:sibling-failed", "sibling {sid} (not abandoned) failed: {:?}", other.map(|r| r.map(|r| r.map(|x| x.status().to_u16()).map_err(|e| e.to_string())))),
            }
        }
        // quiescence, then: every started handler of an abandoned call was dropped or finished
        sleep_ms(1_000 + 4 * h.link_delay_ms as u64).await;
        let log = b.rec.snapshot();
        let starts = log.iter().filter(|r| r.ev == Ev::Start).count();
        let ends = log.iter().filter(|r| r.ev != Ev::Start).count();
        vensure!(starts == ends, "c12:handler-leak", "after {total} abandoned calls: {starts} handlers started, {ends} ended (dropped or finished)");
        // stream capacity is not exhausted: `limit` fresh calls run concurrently and all succeed promptly
        let n_fresh = limit.min(20);
        let t0 = sim.fabric.now_ms();
        let mut fresh = Vec::new();
        for k in 0..n_fresh {
            let ctl = Ctl { id: 1_000_000 + k as u64, delay_ms: 0, status_idx: 0, resp_len: 10, resp_hdrs: 0, mode: 0 };
            let net = a.net.clone();
            let target = b.id();
            fresh.push(tokio::spawn(async move { within(5_000, net.rpc(target, ctl_request("/fresh", &[], &ctl, 40))).await }));
        }
        for f in fresh {
            match f.await {
                Ok(Ok(Ok(r))) if r.status().to_u16() == 200 => {}
                other => vfail!("c12:fresh-rpc-failed", "after {total} abandoned calls (stream limit {limit}) a fresh RPC failed: {:?}", other.map(|r| r.map(|r| r.map(|x| x.status().to_u16()).map_err(|e| e.to_string())))),
            }
        }
        let took = sim.fabric.now_ms() - t0;
        vensure!(took <= 8 * h.link_delay_ms.max(1) as u64 + 50, "c12:fresh-rpc-slow", "fresh RPCs took {took} ms after {total} abandoned calls");
        vensure!(a.net.peers().contains(&b.id()), "c12:connection-lost", "connection lost after abandoned calls");
        if let Some(how) = h.ending {
            let starts_before = b.rec.snapshot().iter().filter(|r| r.ev == Ev::Start).count();
            let mut futs = Vec::new();
            for j in 0..4u64 {
                let ctl = Ctl { id: 2_000_000 + j, delay_ms: if j % 2 == 0 { 0 } else { 30_000 }, status_idx: 0, resp_len: 10, resp_hdrs: 0, mode: if j % 2 == 0 { 1 } else { 0 } };
                futs.push(a.net.rpc(b.id(), ctl_request("/ending", &[], &ctl, 40)));
            }
            // the calls are abandoned when the timeout drops them; the next statement runs without yielding
            let _ = tokio::time::timeout(Duration::from_millis(30 + 4 * h.link_delay_ms as u64), futures::future::join_all(futs)).await;
            match how % 3 {
                0 => { let _ = a.net.disconnect(b.id()); }
                1 => { let _ = b.net.disconnect(a.id()); }
                _ => { let _ = within(20_000, a.net.shutdown()).await; }
            }
            let started = b.rec.snapshot().iter().filter(|r| r.ev == Ev::Start).count() - starts_before;
            sleep_ms(1_000 + 4 * h.link_delay_ms as u64).await;
            let log = b.rec.snapshot();
            let starts = log.iter().filter(|r| r.ev == Ev::Start).count();
            let ends = log.iter().filter(|r| r.ev != Ev::Start).count();
            vensure!(starts == ends, "c12:handler-leak", "{started} handlers were running when their calls were abandoned and the connection ended in the same instant ({}); 1 s later {starts} handlers have started and only {ends} have ended (dropped or finished)", ["caller disconnects", "callee disconnects", "caller shuts down"][how as usize % 3]);
            let live = b.rec.live_clones();
            vensure!(live <= baseline_clones, "c12:resources-held", "after the connection ended the callee holds {live} service clones; baseline {baseline_clones}");
            if started > 0 { obs.label("abandoned-by-connection-loss-with-running-handlers"); }
        }
        sim.health()?;
        check_no_panics("during a history of abandoned RPCs")?;
        obs.evals(total as u64);
        if total > limit { obs.label("history-longer-than-stream-limit"); }
        if h.concurrency_limit.is_some() { obs.label("service-with-backpressure"); }
        if total > limit {
            obs.nontrivial(&h);
        }
        Ok(())
    })
}

pub struct Histories;
impl Part for Histories {
    type Case = History;
    fn name(&self) -> &'static str { "abandon-history" }
    fn rule(&self) -> &'static str {
        "histories of 20-600 abandoned RPCs on one connection (stream limit 2-16 or the default 100; abandon after 0-60 ms; request 10 B-300 KiB; handlers 0-10 s or never; callee service optionally behind ConcurrencyLimit with a long non-abandoned call occupying it), interleaved with sibling calls that are not abandoned; oracle: siblings and the occupier return their own correct responses, started = ended handlers after quiescence, min(limit,20) fresh RPCs then complete concurrently in normal time, connection stays; optional epilogue: four calls with never-ending or 30 s handlers are abandoned and in the same instant the connection is ended (caller disconnects / callee disconnects / caller shuts down), so the abandonment arrives only as connection loss - 1 s later every started handler has ended and the callee holds no per-request state; non-trivial = history longer than the concurrent-stream limit; distinct by history"
    }
    fn strategy(&self, _t: Tier) -> BoxedStrategy<History> {
        let call = (0u16..60, prop_oneof![3 => 10u32..2000, 1 => 2000u32..300_000], prop_oneof![1 => (0u32..20).prop_map(Some), 2 => (20u32..10_000).prop_map(Some), 2 => Just(None)], prop::bool::weighted(0.2))
            .prop_map(|(abandon_after_ms, req_len, handler_ms, with_sibling)| Abandoned { abandon_after_ms, req_len, handler_ms, with_sibling });
        (prop_oneof![3 => (2u8..17).prop_map(Some), 1 => Just(None)], prop::option::weighted(0.5, 1u8..4), prop::option::weighted(0.6, 500u16..20000), 1u8..15, 1u8..7, prop::collection::vec(call, 10..100), prop::option::weighted(0.5, 0u8..3))
            .prop_map(|(stream_limit, concurrency_limit, occupier_ms, link_delay_ms, repeat, calls, ending)| History { stream_limit, concurrency_limit, occupier_ms, link_delay_ms, repeat, calls, ending })
            .boxed()
    }
    fn run(&self, c: &History, obs: &mut Obs) -> Result<(), Fail> { history(c, obs) }
}

pub fn run(tier: Tier) -> i32 {
    let mut ctx = Ctx::new("C12", tier);
    ctx.level = "fault_enumeration";
    ctx.assume("abandon instants are enumerated at packet-event granularity of a reference run of the same shape (thinned above 64 points); between two fabric events nothing observable changes for the peer");
    ctx.assume("'promptly' is checked as: dropped within 1 virtual second of the abandon");
    ctx.run_part(Sweeps, tier.pick(150, 15_000));
    ctx.run_part(Histories, tier.pick(400, 30_000));
    ctx.finish()
}
