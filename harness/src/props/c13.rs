//! C13 — background dialing: who is dialed, how often, and that it succeeds.

use crate::core::*;
use crate::simnet::*;
use crate::{vensure, vfail};
use anemo::types::{PeerAffinity, PeerEvent, PeerInfo};
use anemo::verif::active_peers::BackoffDriver;
use anemo::PeerId;
use proptest::prelude::*;
use serde::{Deserialize, Serialize};
use std::collections::BTreeMap;
use std::net::SocketAddr;
use std::sync::{Arc, Mutex};
use std::time::{Duration, Instant};

// ============================================================ backoff arithmetic (hook H6)

#[derive(Clone, Debug, Serialize, Deserialize, PartialEq, Eq, Hash)]
pub struct BackoffCase {
    pub step_ms: u32,
    pub max_ms: u32,
    pub failures: Vec<u32>,
}

pub struct Backoff;
impl Part for Backoff {
    type Case = BackoffCase;
    fn name(&self) -> &'static str { "backoff-arithmetic" }
    fn rule(&self) -> &'static str {
        "the per-peer backoff bookkeeping (hook H6) fed with generated failure times, step and maximum (including 0, equal, max < step, huge values): after the k-th consecutive failure noticed at time t the next attempt is allowed no sooner than t + min(max, k*step), and the attempt counter is k; non-trivial = >=2 failures with the cap binding or not; distinct by case"
    }
    fn strategy(&self, _t: Tier) -> BoxedStrategy<BackoffCase> {
        (prop_oneof![Just(0u32), 1u32..30_000, Just(u32::MAX)], prop_oneof![Just(0u32), 1u32..200_000, Just(u32::MAX)], prop::collection::vec(0u32..100_000, 1..40))
            .prop_map(|(step_ms, max_ms, failures)| BackoffCase { step_ms, max_ms, failures })
            .boxed()
    }
    fn run(&self, c: &BackoffCase, obs: &mut Obs) -> Result<(), Fail> {
        let base = Instant::now();
        let step = Duration::from_millis(c.step_ms as u64);
        let max = Duration::from_millis(c.max_ms as u64);
        let mut t = base;
        let mut st: Option<BackoffDriver> = None;
        for (k, dt) in c.failures.iter().enumerate() {
            t += Duration::from_millis(*dt as u64);
            match st.as_mut() {
                None => st = Some(BackoffDriver::new(t, step, max)),
                Some(s) => s.update(t, step, max),
            }
            let s = st.as_ref().unwrap();
            let k = k as u32 + 1;
            let want = std::cmp::min(max, step.saturating_mul(k));
            vensure!(s.attempts() == k as usize, "c13:attempt-counter", "after {k} failures the attempt counter is {}", s.attempts());
            vensure!(s.backoff() == t + want, "c13:backoff-arithmetic", "after {k} failures (step {:?}, max {:?}) the next attempt is allowed after {:?}, expected min(max, k*step) = {:?}", step, max, s.backoff() - t, want);
        }
        if c.failures.len() >= 2 { obs.nontrivial(c); }
        Ok(())
    }
}

// ============================================================ whole-network schedules

#[derive(Clone, Copy, Debug, Serialize, Deserialize, PartialEq, Eq, Hash)]
pub enum AddrKind {
    /// a target network with the entry's identity answers here (while it is running)
    Live,
    /// nobody answers
    Dead,
    /// a network with ANOTHER identity answers here
    WrongIdentity,
}

#[derive(Clone, Debug, Serialize, Deserialize, PartialEq, Eq, Hash)]
pub struct Entry {
    /// 0 High, 1 Allowed, 2 Never
    pub affinity: u8,
    pub addrs: Vec<AddrKind>,
    /// this entry describes the dialer itself
    pub is_self: bool,
}

#[derive(Clone, Debug, Serialize, Deserialize, PartialEq, Eq, Hash)]
pub enum Action {
    /// the entry's target network stops (gracefully) / starts again
    Stop(u8),
    Start(u8),
    /// the target disconnects the dialer (target keeps running)
    Kick(u8),
    /// the dialer explicitly dials a dead address (occupies a connecting slot for connect_timeout)
    ExplicitDialDead,
}

#[derive(Clone, Debug, Serialize, Deserialize, PartialEq, Eq, Hash)]
pub struct Case {
    pub interval_ms: u16,
    pub step_ms: u16,
    pub max_ms: u32,
    pub connect_timeout_ms: u16,
    pub cap: u8,
    pub entries: Vec<Entry>,
    /// (delay since previous action in ms, action)
    pub schedule: Vec<(u32, Action)>,
    /// epilogue: the table is emptied (0 = KnownPeers::remove_all, 1 = remove every entry, 2 = every
    /// entry re-inserted with affinity Never), every target then disconnects the dialer; nobody
    /// may be dialed any more
    #[serde(default)]
    pub epilogue: Option<u8>,
    /// networks that are in no table entry connect to the dialer (inbound) before the table is
    /// filled and stay connected: connections unrelated to the table must not change who is dialed
    #[serde(default)]
    pub strangers: u8,
}

struct Target {
    spec: NodeSpec,
    node: Option<Node>,
    /// (from, to) virtual ms during which the target was running
    up: Vec<(u64, Option<u64>)>,
    /// (from, to) windows during which it was shutting down (its socket still answers, refusing)
    closing: Vec<(u64, u64)>,
}

#[derive(Clone, Debug)]
struct Att {
    t: u64,
    entry: usize,
    addr_idx: usize,
    kind: AddrKind,
    explicit: bool,
}

const SLACK: u64 = 150;

pub fn check(case: &Case, obs: &mut Obs) -> Result<(), Fail> {
    let case = case.clone();
    run_sim(81, 2, |sim| async move {
        let interval = case.interval_ms.max(200) as u64;
        let step = case.step_ms.max(100) as u64;
        let maxb = (case.max_ms as u64).max(step);
        let cto = case.connect_timeout_ms.max(500) as u64;
        let cap = case.cap.max(1) as usize;
        let mut ns = NodeSpec::new(0);
        ns.config.connectivity_check_interval_ms = Some(interval);
        ns.config.connection_backoff_ms = Some(step);
        ns.config.max_connection_backoff_ms = Some(maxb);
        ns.config.connect_timeout_ms = Some(cto);
        ns.config.max_concurrent_outstanding_connecting_connections = Some(cap);
        // ---- addresses: entry e, address a -> 10.0.(e+1).(a+1)
        let addr_of = |e: usize, a: usize| -> SocketAddr { SocketAddr::new(std::net::IpAddr::V4(std::net::Ipv4Addr::new(10, 1, e as u8 + 1, a as u8 + 1)), 7000) };
        let explicit_dead: SocketAddr = "10.9.9.9:7000".parse().unwrap();
        let entries: Vec<Entry> = case.entries.iter().take(5).cloned().collect();
        let mut targets: BTreeMap<(usize, usize), Target> = BTreeMap::new();
        let mut addr_map: BTreeMap<SocketAddr, (usize, usize)> = BTreeMap::new();
        let n_id = ns.peer_id();
        let entry_id = |e: usize| -> PeerId { if entries[e].is_self { n_id } else { peer_id_of_seed(&key_seed(8100 + e as u64)) } };
        let mut wrong_nodes = Vec::new();
        for (e, ent) in entries.iter().enumerate() {
            for (a, kind) in ent.addrs.iter().take(3).enumerate() {
                let addr = addr_of(e, a);
                addr_map.insert(addr, (e, a));
                match kind {
                    AddrKind::Live if !ent.is_self => {
                        let mut s = NodeSpec::new(1);
                        s.addr = addr;
                        s.key = key_seed(8100 + e as u64);
                        targets.insert((e, a), Target { spec: s, node: None, up: vec![], closing: vec![] });
                    }
                    AddrKind::WrongIdentity => {
                        let mut s = NodeSpec::new(1);
                        s.addr = addr;
                        s.key = key_seed(8500 + (e * 4 + a) as u64);
                        wrong_nodes.push(sim.node_with(s)?);
                    }
                    _ => {} // dead: nothing bound; datagrams vanish
                }
            }
        }
        // all live targets start running (same identity may answer at several addresses: one network per address)
        for t in targets.values_mut() {
            t.node = Some(sim.node_with(t.spec.clone())?);
            t.up.push((0, None));
        }
        // ---- the dialer; entries are in its table before its first connectivity check
        let n = sim.node_with(ns)?;
        let (mut rx, _) = n.net.subscribe().map_err(|e| Fail::Inconclusive(e.to_string()))?;
        let mut stranger_nodes = Vec::new();
        for i in 0..(case.strangers.min(3) as usize) {
            let mut s = NodeSpec::new(1);
            s.addr = SocketAddr::new(std::net::IpAddr::V4(std::net::Ipv4Addr::new(10, 2, 0, i as u8 + 1)), 7000);
            s.key = key_seed(8900 + i as u64);
            let node = sim.node_with(s)?;
            match within(10_000, node.net.connect(n.addr())).await {
                Ok(Ok(_)) => {}
                other => return Err(Fail::Inconclusive(format!("an unrelated network could not connect to the dialer: {:?}", other.map(|r| r.map(|_| ()).map_err(|e| e.to_string()))))),
            }
            stranger_nodes.push(node);
        }
        let stranger_ids: Vec<PeerId> = stranger_nodes.iter().map(|s| s.net.peer_id()).collect();
        if !stranger_ids.is_empty() {
            for _ in 0..100 {
                if stranger_ids.iter().all(|p| n.net.peers().contains(p)) { break; }
                sleep_ms(10).await;
            }
        }
        // everything below is relative to the moment the table is filled
        let t_base = sim.now_ms();
        for (e, ent) in entries.iter().enumerate() {
            let affinity = match ent.affinity % 3 { 0 => PeerAffinity::High, 1 => PeerAffinity::Allowed, _ => PeerAffinity::Never };
            let address = (0..ent.addrs.len().min(3)).map(|a| addr_of(e, a).into()).collect();
            n.net.known_peers().insert(PeerInfo { peer_id: entry_id(e), affinity, address });
        }
        // events with timestamps
        let events: Arc<Mutex<Vec<(u64, PeerEvent)>>> = Arc::new(Mutex::new(Vec::new()));
        {
            let events = events.clone();
            let fabric = sim.fabric.clone();
            tokio::spawn(async move {
                while let Ok(e) = rx.recv().await {
                    events.lock().unwrap().push((fabric.now_ms(), e));
                }
            });
        }
        // ---- schedule
        let mut explicit: Vec<u64> = Vec::new();
        for (delay, act) in &case.schedule {
            sleep_ms(*delay as u64).await;
            let now = sim.now_ms();
            match act {
                Action::Stop(e) | Action::Start(e) | Action::Kick(e) => {
                    let e = *e as usize % entries.len().max(1);
                    let keys: Vec<(usize, usize)> = targets.keys().filter(|k| k.0 == e).cloned().collect();
                    for k in keys {
                        let t = targets.get_mut(&k).unwrap();
                        match act {
                            Action::Stop(_) => {
                                if let Some(node) = t.node.take() {
                                    // down from the moment the shutdown starts
                                    let t0 = sim.now_ms();
                                    if let Some(last) = t.up.last_mut() { last.1 = Some(t0); }
                                    let _ = within(10_000, node.net.shutdown()).await;
                                    t.closing.push((t0, sim.now_ms() + 1));
                                }
                            }
                            Action::Start(_) => {
                                if t.node.is_none() {
                                    t.node = Some(sim.node_with(t.spec.clone())?);
                                    t.up.push((sim.now_ms(), None));
                                }
                            }
                            _ => {
                                if let Some(node) = &t.node { let _ = node.net.disconnect(n_id); }
                            }
                        }
                    }
                }
                Action::ExplicitDialDead => {
                    explicit.push(now);
                    let net = n.net.clone();
                    tokio::spawn(async move { let _ = net.connect(explicit_dead).await; });
                }
            }
        }
        let schedule_end = sim.now_ms();
        // ---- quiet tail: every target runs; long enough for any rotation through dead addresses
        for t in targets.values_mut() {
            if t.node.is_none() {
                t.node = Some(sim.node_with(t.spec.clone())?);
                t.up.push((sim.now_ms(), None));
            }
        }
        // Under a binding cap attempts are serialized: every address of every reachable High peer may cost
        // a full connect timeout plus backoff, interleaved with the attempts of the hopeless ones.
        let high = |e: &Entry| e.affinity % 3 == 0 && !e.is_self && !e.addrs.is_empty();
        let reachable_addrs: u64 = entries.iter().filter(|e| high(e) && e.addrs.iter().take(3).any(|k| *k == AddrKind::Live)).map(|e| e.addrs.len().min(3) as u64).sum();
        let hopeless_n = entries.iter().filter(|e| high(e) && !e.addrs.iter().take(3).any(|k| *k == AddrKind::Live)).count() as u64;
        let demand_n = entries.iter().filter(|e| high(e)).count() + case.schedule.iter().filter(|(_, a)| matches!(a, Action::ExplicitDialDead)).count();
        let serialized = if demand_n > cap { (reachable_addrs + 1) * (hopeless_n + 1) * (cto + maxb + 2 * interval) } else { 0 };
        let tail = (3 * (cto + maxb + 2 * interval) + 1_000).max(serialized);
        sleep_ms(tail).await;
        let end = sim.now_ms();
        sim.health()?;
        check_no_panics("during background dialing")?;

        // ---- the attempt log (black box: QUIC Initials with never-seen connection ids leaving the dialer)
        let mut atts: Vec<Att> = Vec::new();
        for a in sim.fabric.attempts() {
            if a.src != n.addr() { continue; }
            if a.dst == explicit_dead {
                atts.push(Att { t: a.t_ms, entry: usize::MAX, addr_idx: 0, kind: AddrKind::Dead, explicit: true });
                continue;
            }
            match addr_map.get(&a.dst) {
                Some((e, i)) => atts.push(Att { t: a.t_ms, entry: *e, addr_idx: *i, kind: entries[*e].addrs[*i], explicit: false }),
                None => vfail!("c13:dialed-unknown-address", "the dialer sent a connection attempt to {} which is in no table entry", a.dst),
            }
        }
        let evs = events.lock().unwrap().clone();
        if std::env::var_os("VERIF_VERBOSE").is_some() {
            for a in &atts { eprintln!("attempt {:?}", a); }
            for e in &evs { eprintln!("event {:?}", e); }
            for (k, t) in &targets { eprintln!("target {:?} up {:?}", k, t.up); }
        }
        // connected intervals per entry
        let connected_at = |e: usize, t: u64| -> bool {
            let id = entry_id(e);
            let mut on = false;
            for (te, ev) in &evs {
                if *te > t { break; }
                match ev {
                    PeerEvent::NewPeer(p) if *p == id => on = *te <= t,
                    PeerEvent::LostPeer(p, _) if *p == id => on = false,
                    _ => {}
                }
            }
            on
        };
        let target_up = |e: usize, a: usize, t: u64| -> bool {
            targets.get(&(e, a)).map_or(false, |tg| tg.up.iter().any(|(f, to)| *f <= t && to.map_or(true, |x| t < x)))
        };
        // model duration of an attempt (lower bound): dead / stopped target = connect timeout
        let duration = |at: &Att| -> u64 {
            // an attempt that led to a connection ends when the connection is announced
            if !at.explicit {
                let id = entry_id(at.entry);
                // (a later attempt to the same entry owns any later announcement)
                let next = atts.iter().filter(|o| !o.explicit && o.entry == at.entry && o.t > at.t).map(|o| o.t).min().unwrap_or(u64::MAX);
                if let Some((te, _)) = evs.iter().find(|(te, ev)| *te >= at.t && *te <= at.t + cto && *te < next && matches!(ev, PeerEvent::NewPeer(p) if *p == id)) {
                    return te - at.t;
                }
            }
            match at.kind {
                AddrKind::Dead => cto,
                AddrKind::WrongIdentity => 0,
                AddrKind::Live => {
                    // only a target that is fully down (socket gone) for the whole attempt makes it time out;
                    // a running or closing target answers (accepting or refusing) at once
                    let tg = targets.get(&(at.entry, at.addr_idx));
                    let answering = |t: u64| target_up(at.entry, at.addr_idx, t) || tg.map_or(false, |tg| tg.closing.iter().any(|(f, to)| *f <= t && t <= *to));
                    let comes_back = tg.map_or(false, |tg| tg.up.iter().any(|(f, _)| *f > at.t && *f <= at.t + cto));
                    if answering(at.t) || answering(at.t + 5) || comes_back { 0 } else { cto }
                }
            }
        };
        // ---- P1: who is dialed
        for at in atts.iter().filter(|a| !a.explicit) {
            let ent = &entries[at.entry];
            vensure!(ent.affinity % 3 == 0, "c13:dialed-non-high", "background dial at {} ms to entry {} whose affinity is {}", at.t, at.entry, ["High", "Allowed", "Never"][ent.affinity as usize % 3]);
            vensure!(!ent.is_self, "c13:dialed-self", "background dial at {} ms to the dialer's own entry", at.t);
            vensure!(!connected_at(at.entry, at.t.saturating_sub(1)) || !connected_at(at.entry, at.t), "c13:dialed-connected-peer", "background dial at {} ms to entry {} which was connected at that time", at.t, at.entry);
        }
        // ---- per entry: rotation (P2), spacing (P3), no overlap (P1)
        let (mut streak2, mut multi_addr, mut cap_binding) = (false, false, false);
        for e in 0..entries.len() {
            let mine: Vec<&Att> = atts.iter().filter(|a| !a.explicit && a.entry == e).collect();
            let n_addr = entries[e].addrs.len().min(3).max(1);
            if n_addr > 1 && !mine.is_empty() { multi_addr = true; }
            let id = entry_id(e);
            let mut k = 0u64; // consecutive failures so far
            for (i, at) in mine.iter().enumerate() {
                vensure!(at.addr_idx == (k as usize) % n_addr, "c13:rotation", "entry {e}: attempt {i} at {} ms (after {k} consecutive failures) went to address #{} of {n_addr}; the rotation says #{}", at.t, at.addr_idx, (k as usize) % n_addr);
                let next_t = mine.get(i + 1).map(|n| n.t).unwrap_or(end + 1);
                let succeeded = evs.iter().any(|(te, ev)| *te >= at.t && *te < next_t && matches!(ev, PeerEvent::NewPeer(p) if *p == id));
                if succeeded {
                    if k >= 2 { streak2 = true; }
                    k = 0;
                } else {
                    k += 1;
                    if let Some(nx) = mine.get(i + 1) {
                        let need = duration(at) + std::cmp::min(maxb, k * step);
                        vensure!(nx.t + 1 >= at.t + need, "c13:dialed-too-soon", "entry {e}: after {k} consecutive failures (attempt at {} ms to a {:?} address) the next attempt came at {} ms, only {} ms later; it may come no sooner than {} ms later (failed attempt {} ms + backoff min(max {maxb}, {k} x {step}))", at.t, at.kind, nx.t, nx.t - at.t, need, duration(at));
                    }
                }
            }
        }
        // ---- P5: never more attempts in flight than the cap when background dials start
        let mut ticks: Vec<u64> = atts.iter().filter(|a| !a.explicit).map(|a| a.t).collect();
        ticks.sort();
        ticks.dedup();
        for t in ticks {
            // model durations are lower bounds, so this undercounts what was really in flight
            let earlier = atts.iter().filter(|o| o.t < t && o.t + duration(o) > t + 1).count();
            let starting = atts.iter().filter(|o| !o.explicit && o.t == t).count();
            vensure!(earlier + starting <= cap, "c13:cap-exceeded", "at {t} ms {starting} background dial(s) started while {earlier} connection attempts (explicit ones included) were still being established; the cap is {cap}");
            if earlier + starting >= cap { cap_binding = true; }
        }
        // ---- P4: it succeeds. (a)/(b): no failure preceded -> connected within one interval (+ connect time)
        // (only claimed when the in-flight cap can never be the reason for a delay)
        let mut starvation_checked = false;
        let demand = entries.iter().filter(|e| e.affinity % 3 == 0 && !e.is_self && !e.addrs.is_empty()).count() + explicit.len();
        let cap_never_binding = demand <= cap;
        for (e, ent) in entries.iter().enumerate() {
            if ent.affinity % 3 != 0 || ent.is_self || ent.addrs.is_empty() { continue; }
            let id = entry_id(e);
            // "keeps dialing until it is connected": as long as the peers that can never connect
            // cannot occupy every connecting slot for good, a peer with a live address gets its turn
            let hopeless = entries.iter().filter(|e| e.affinity % 3 == 0 && !e.is_self && !e.addrs.is_empty() && !e.addrs.iter().take(3).any(|k| *k == AddrKind::Live)).count();
            if !cap_never_binding {
                if hopeless <= cap && hopeless > 0 && ent.addrs.iter().take(3).any(|k| *k == AddrKind::Live) {
                    vensure!(n.net.peers().contains(&id), "c13:starved", "entry {e} (High, addresses {:?}) is not connected after a fault-free tail of {tail} ms although only {hopeless} unreachable High peer(s) compete for {cap} connecting slot(s)", ent.addrs);
                    starvation_checked = true;
                }
                continue;
            }
            // becoming eligible with a clean slate: at start, and after each loss that follows a success
            let mut moments: Vec<u64> = vec![t_base];
            for (te, ev) in &evs {
                if matches!(ev, PeerEvent::LostPeer(p, _) if *p == id) { moments.push(*te); }
            }
            for m in moments {
                let deadline = m + interval + SLACK + 4 * 2;
                if deadline > end { continue; }
                // only when the first address in rotation answers during the whole window
                if ent.addrs[0] != AddrKind::Live || !(target_up(e, 0, m) && target_up(e, 0, deadline)) { continue; }
                if targets.get(&(e, 0)).map_or(true, |t| t.up.iter().any(|(f, _)| *f > m && *f <= deadline)) { continue; }
                let ok = evs.iter().any(|(te, ev)| *te >= m && *te <= deadline && matches!(ev, PeerEvent::NewPeer(p) if *p == id)) || connected_at(e, deadline);
                vensure!(ok, "c13:not-connected-in-time", "entry {e} (High, first address live) became eligible at {m} ms without earlier failures and was not connected by {deadline} ms (interval {interval} ms)");
            }
            // tail: with every target running, any High peer that has a live address must end up connected
            if ent.addrs.iter().take(3).any(|k| *k == AddrKind::Live) {
                vensure!(n.net.peers().contains(&id), "c13:gave-up", "entry {e} (High, addresses {:?}) is not connected after a fault-free tail of {tail} ms with all its live addresses answering", ent.addrs);
            } else {
                vensure!(!n.net.peers().contains(&id), "c13:connected-to-nobody", "entry {e} has no live address but is listed as connected");
            }
        }
        // never connected to anything that is not a High entry's identity reached at a live address
        for p in n.net.peers() {
            let ok = entries.iter().enumerate().any(|(e, ent)| entry_id(e) == p && !ent.is_self) || stranger_ids.contains(&p);
            vensure!(ok, "c13:connected-to-unknown", "the dialer lists {p}, which is in no table entry");
        }
        let _ = schedule_end;
        // ---- epilogue: an emptied table stops the dialing
        if let Some(how) = case.epilogue {
            match how % 3 {
                0 => { n.net.known_peers().remove_all(); }
                1 => { for e in 0..entries.len() { n.net.known_peers().remove(&entry_id(e)); } }
                _ => { for e in 0..entries.len() { n.net.known_peers().insert(PeerInfo { peer_id: entry_id(e), affinity: PeerAffinity::Never, address: vec![] }); } }
            }
            let t_clear = sim.now_ms();
            sleep_ms(5).await;
            for t in targets.values() {
                if let Some(node) = &t.node { let _ = node.net.disconnect(n_id); }
            }
            sleep_ms(3 * interval + cto + 2 * maxb.min(10_000)).await;
            for a in sim.fabric.attempts() {
                if a.src != n.addr() || a.dst == explicit_dead || a.t_ms <= t_clear + 5 { continue; }
                vfail!("c13:dialed-removed-peer", "the table was emptied at {t_clear} ms ({}); at {} ms the dialer still started a connection attempt to {}", ["remove_all", "remove of every entry", "every entry set to Never"][how as usize % 3], a.t_ms, a.dst);
            }
            let left: Vec<PeerId> = n.net.peers().into_iter().filter(|p| !stranger_ids.contains(p)).collect();
            vensure!(left.is_empty(), "c13:dialed-removed-peer", "after the table was emptied and every target disconnected the dialer, it lists {:?}", left);
            obs.label("epilogue:table-emptied");
        }
        obs.evals(atts.len() as u64);
        if starvation_checked { obs.label("liveness-checked-under-binding-cap"); }
        if streak2 { obs.label(">=2-failures-then-success"); }
        if multi_addr { obs.label("multi-address-peer-dialed"); }
        if cap_binding { obs.label("cap-was-binding"); }
        if !explicit.is_empty() { obs.label("explicit-dials-in-flight"); }
        if !stranger_ids.is_empty() { obs.label("unrelated-connections-present"); }
        drop(stranger_nodes);
        if streak2 || multi_addr || cap_binding {
            obs.nontrivial(&case);
        }
        Ok(())
    })
}

pub struct Schedules;
impl Part for Schedules {
    type Case = Case;
    fn name(&self) -> &'static str { "schedules" }
    fn rule(&self) -> &'static str {
        "a dialer with a known-peer table (1-5 entries: affinity High/Allowed/Never, 0-3 addresses each of kind live / dead / answered by another identity, optionally an entry for the dialer itself), interval 0.2-10 s, backoff step 0.1-20 s, max 1-120 s, connect timeout 0.5-10 s, in-flight cap 1-5 or 100, tick jitter pinned to 0 (hook H2), 0-3 networks that are in no table entry connected to the dialer throughout; schedules of targets stopping, starting, kicking the dialer, and explicit dials to a dead address, followed by a fault-free tail; observed black-box through the fabric's log of new connection attempts and the dialer's events; oracle: P1 attempts only go to High, non-self, not-connected peers; P2 the i-th attempt of a failure streak uses address i mod n and the rotation restarts after a success; P3 after k consecutive failures the next attempt comes no sooner than the failed attempt's duration + min(max, k*step); P4 a High peer whose first address answers is connected within one interval of becoming eligible, and after the tail every High peer with a live address is connected; P5 no background dial starts while the number of attempts in flight (explicit ones included) is at the cap; non-trivial = >=2 failures then success, a multi-address peer, or a tick at which the cap was binding; distinct by case"
    }
    fn strategy(&self, _t: Tier) -> BoxedStrategy<Case> {
        let kind = prop_oneof![3 => Just(AddrKind::Live), 3 => Just(AddrKind::Dead), 1 => Just(AddrKind::WrongIdentity)];
        let entry = (prop_oneof![5 => Just(0u8), 1 => Just(1u8), 1 => Just(2u8)], prop::collection::vec(kind, 0..4), prop::bool::weighted(0.1))
            .prop_map(|(affinity, addrs, is_self)| Entry { affinity, addrs, is_self });
        let act = prop_oneof![3 => (0u8..5).prop_map(Action::Stop), 3 => (0u8..5).prop_map(Action::Start), 2 => (0u8..5).prop_map(Action::Kick), 2 => Just(Action::ExplicitDialDead)];
        (200u16..10_000, 100u16..20_000, 1_000u32..120_000, 500u16..10_000, prop_oneof![3 => 1u8..6, 1 => Just(100u8)], prop::collection::vec(entry, 1..6),
         prop::collection::vec((prop_oneof![0u32..2_000, 2_000u32..60_000], act), 0..10), prop::option::weighted(0.4, 0u8..3), prop_oneof![3 => Just(0u8), 2 => 1u8..4])
            .prop_map(|(interval_ms, step_ms, max_ms, connect_timeout_ms, cap, entries, schedule, epilogue, strangers)| Case { interval_ms, step_ms, max_ms, connect_timeout_ms, cap, entries, schedule, epilogue, strangers })
            .boxed()
    }
    fn run(&self, c: &Case, obs: &mut Obs) -> Result<(), Fail> { check(c, obs) }
}

pub fn run(tier: Tier) -> i32 {
    let mut ctx = Ctx::new("C13", tier);
    ctx.assume("attempts are observed black-box: a QUIC Initial with a never-seen connection id leaving the dialer = one new connection attempt");
    ctx.assume("lower bounds (P3) are exact in virtual time; upper bounds (P4) carry one interval of slack because a failure landing on a tick may be noticed at that tick or the next");
    ctx.run_part(Backoff, tier.pick(15_000, 300_000));
    ctx.run_part(Schedules, tier.pick(10_000, 200_000));
    ctx.finish()
}
