//! C09 — connection views are eventually mutual; disconnects propagate.

use crate::core::*;
use crate::simnet::*;
use crate::{vensure, vfail};
use anemo::types::{DisconnectReason, PeerEvent};
use anemo::PeerId;
use proptest::prelude::*;
use serde::{Deserialize, Serialize};
use std::collections::BTreeMap;
use std::sync::{Arc, Mutex};

#[derive(Clone, Debug, Serialize, Deserialize, PartialEq, Eq, Hash)]
pub enum Op {
    Connect { from: u8, to: u8 },
    /// connect_with_peer_id(addr of `to`, id of `to`)
    ConnectPinned { from: u8, to: u8 },
    Disconnect { at: u8, peer: u8 },
    Rpc { from: u8, to: u8 },
    /// graceful shutdown, restart with the same key (and address) after `down_ms`
    ShutdownRestart { node: u8, down_ms: u16 },
    /// crash: nothing is delivered from or to the node any more, nothing is closed; restart with
    /// the same key on a fresh address after `down_ms`
    Crash { node: u8, down_ms: u16 },
    /// drop everything a -> b (and b -> a unless `one_way`) for `ms`
    Partition { a: u8, b: u8, one_way: bool, ms: u16 },
    Loss { pm: u16, ms: u16 },
    Wait(u16),
}

#[derive(Clone, Debug, Serialize, Deserialize, PartialEq, Eq, Hash)]
pub struct Case {
    pub nodes: u8,
    pub idle_ms: u16,
    /// extra idle timeout (ms) of odd-numbered nodes on top of `idle_ms`: nodes may be configured
    /// differently; each node's own configured value bounds how long IT may keep a dead entry
    #[serde(default)]
    pub idle_skew_ms: u16,
    pub keep_alive: bool,
    /// keep-alive interval as a percentage of the node's idle timeout (0 = the default third)
    #[serde(default)]
    pub keep_alive_pct: u8,
    pub ops: Vec<Op>,
}

const SLACK_MS: u64 = 500;
/// an RTT estimate this far above the simulated 4 ms link RTT was inflated by faults; QUIC floors
/// the idle period at 3 PTO (PTO = srtt + 4 rttvar), so such a connection may outlive the idle timeout
const INFLATED_RTT_MS: u64 = 50;
const SAMPLE_MS: u64 = 100;

struct Slot {
    node: Node,
    alive: bool,
    /// this incarnation's event stream (the sampler uses it to tell a new entry for a peer from an old one)
    events: Option<tokio::sync::broadcast::Receiver<anemo::types::PeerEvent>>,
    /// every address this identity has used (a crashed incarnation's address stays relevant:
    /// stale connections point at it)
    addrs: Vec<std::net::SocketAddr>,
}

#[derive(Default)]
struct Tracker {
    /// (lister slot, listed peer id) -> since when (ms) the entry has been one-sided
    stale_since: BTreeMap<(usize, [u8; 32]), u64>,
    /// largest RTT estimate (ms) the stale side reported for that connection while it was one-sided
    stale_rtt: BTreeMap<(usize, [u8; 32]), u64>,
    /// per listed connection (from its own statistics): datagrams sent / received so far and the
    /// sample times at which those counters last moved
    io: BTreeMap<(usize, [u8; 32]), (u64, u64, u64, u64)>,
    worst_ms: u64,
    /// finished stale intervals longer than the bound: (lister, peer, from, to, cause_restart_on_send, rtt estimate ms)
    over: Vec<(usize, [u8; 32], u64, u64, bool, u64, u64)>,
}

pub fn check(case: &Case, obs: &mut Obs) -> Result<(), Fail> {
    let case = case.clone();
    run_sim(71, 2, |sim| async move {
        let n = case.nodes.clamp(2, 5) as usize;
        let idle_base = case.idle_ms.clamp(3_500, 12_000) as u64;
        let idle_of = |i: usize| idle_base + if i % 2 == 1 { case.idle_skew_ms as u64 } else { 0 };
        let idle = idle_base + case.idle_skew_ms as u64; // the largest configured value (tail lengths)
        let spec = |i: usize| {
            let mut s = NodeSpec::new(i as u8);
            let q = s.config.quic.as_mut().unwrap();
            q.max_idle_timeout_ms = Some(idle_of(i));
            q.keep_alive_interval_ms = if case.keep_alive { Some(if case.keep_alive_pct == 0 { idle_of(i) / 3 } else { idle_of(i) * case.keep_alive_pct.clamp(10, 98) as u64 / 100 }) } else { None };
            s.config.shutdown_idle_timeout_ms = Some(200);
            s
        };
        let slots: Arc<Mutex<Vec<Slot>>> = Arc::new(Mutex::new(Vec::new()));
        for i in 0..n {
            let node = sim.node_with(spec(i))?;
            let addrs = vec![node.addr()];
            let events = node.net.subscribe().ok().map(|(rx, _)| rx);
            slots.lock().unwrap().push(Slot { node, alive: true, events, addrs });
        }
        let ids: Vec<PeerId> = slots.lock().unwrap().iter().map(|s| s.node.id()).collect();
        let tracker = Arc::new(Mutex::new(Tracker::default()));
        let graveyard: Arc<Mutex<Vec<Node>>> = Arc::new(Mutex::new(Vec::new()));
        // ---- the sampler: every 100 ms of virtual time look at all views
        let skew = case.idle_skew_ms as u64;
        let sample = {
            let slots = slots.clone();
            let tracker = tracker.clone();
            let fabric = sim.fabric.clone();
            let ids = ids.clone();
            move || {
                let now = fabric.now_ms();
                let mut sl = slots.lock().unwrap();
                let mut tr = tracker.lock().unwrap();
                // an entry that was re-created since the last sample (NewPeer seen by its owner) is a new
                // entry: a one-sided period does not continue across it, even when the mutual window in
                // between was shorter than the sampling step
                for a in 0..sl.len() {
                    if let Some(rx) = sl[a].events.as_mut() {
                        loop {
                            match rx.try_recv() {
                                Ok(anemo::types::PeerEvent::NewPeer(p)) => {
                                    let key = (a, p.0);
                                    if let Some(since) = tr.stale_since.get_mut(&key) { *since = now; }
                                    tr.stale_rtt.remove(&key);
                                    tr.io.remove(&key);
                                }
                                Ok(_) => {}
                                Err(tokio::sync::broadcast::error::TryRecvError::Lagged(_)) => continue,
                                Err(_) => break,
                            }
                        }
                    }
                }
                for a in 0..sl.len() {
                    let a_lists: Vec<PeerId> = if sl[a].alive { sl[a].node.net.peers() } else { vec![] };
                    for b in 0..sl.len() {
                        if a == b { continue; }
                        let lists = a_lists.contains(&ids[b]);
                        let back = sl[b].alive && sl[b].node.net.peers().contains(&ids[a]);
                        let key = (a, ids[b].0);
                        if lists {
                            if let Some(p) = sl[a].node.net.peer(ids[b]) {
                                let st = p.connection_stats();
                                let (tx, rx) = (st.udp_tx.datagrams, st.udp_rx.datagrams);
                                let e = tr.io.entry(key).or_insert((tx, rx, now, now));
                                if tx < e.0 || rx < e.1 { *e = (tx, rx, now, now); } // a new connection took the slot
                                if tx != e.0 { e.0 = tx; e.2 = now; }
                                if rx != e.1 { e.1 = rx; e.3 = now; }
                            }
                        }
                        if std::env::var_os("VERIF_VERBOSE").is_some() && (lists && !back) != tr.stale_since.contains_key(&key) {
                            eprintln!("[{now:>6} ms] node {a} lists node {b}: {lists}; node {b} lists node {a}: {back}");
                        }
                        if lists && !back {
                            tr.stale_since.entry(key).or_insert(now);
                            if let Some(p) = sl[a].node.net.peer(ids[b]) {
                                let rtt = p.connection_rtt().as_millis() as u64;
                                let e = tr.stale_rtt.entry(key).or_insert(0);
                                *e = (*e).max(rtt);
                            }
                        } else if let Some(since) = tr.stale_since.remove(&key) {
                            let rtt = tr.stale_rtt.remove(&key).unwrap_or(0);
                            let len = now - since;
                            tr.worst_ms = tr.worst_ms.max(len);
                            let idle = idle_base + if a % 2 == 1 { skew } else { 0 }; // the lister's own configured idle timeout
                            if len > idle + SLACK_MS {
                                // cause test for the known finding: the stale side kept transmitting to
                                // the peer after the last datagram it received from it
                                // from the stale connection's own counters: did its owner transmit at or
                                // after the time it last received anything on it?
                                let cause = tr.io.get(&key).map_or(false, |(_, _, t_tx, t_rx)| t_tx >= t_rx && *t_tx > since.saturating_sub(idle + SLACK_MS));
                                let _ = idle;
                                tr.over.push((a, ids[b].0, since, now, cause, rtt, idle));
                            }
                        }
                        if !lists {
                            tr.io.remove(&key);
                        }
                    }
                }
            }
        };
        let sampler = {
            let sample = sample.clone();
            tokio::spawn(async move {
                loop {
                    sleep_ms(SAMPLE_MS).await;
                    sample();
                }
            })
        };
        // (start, end, pair) of every connectivity fault injected so far; None = everybody
        let fault_log: Arc<Mutex<Vec<(u64, u64, Option<(usize, usize)>)>>> = Arc::new(Mutex::new(Vec::new()));
        let excused = Arc::new(std::sync::atomic::AtomicU64::new(0));
        let evaluate = |tracker: &Arc<Mutex<Tracker>>, what: &str| -> Result<(), Fail> {
            let mut tr = tracker.lock().unwrap();
            for (a, b, from, to, cause, rtt, idle) in tr.over.drain(..) {
                // The statement speaks about connectivity that has been fault-free for longer than the idle
                // timeout: while a partition or loss burst between the two is still going on (or ended less
                // than an idle timeout ago) a one-sided view is not yet a violation - e.g. a dialer whose
                // acknowledgement is being dropped keeps hearing the listener's retransmissions until the
                // listener's connect timeout. The period is therefore measured from the end of the last
                // fault that touched the pair. (A crash is an event, not an ongoing fault.)
                let b_idx = ids.iter().position(|p| p.0 == b);
                let clean_from = fault_log.lock().unwrap().iter()
                    .filter(|(t0, _, pair)| *t0 < to && pair.map_or(true, |(x, y)| Some(x) == b_idx && y == a || x == a && Some(y) == b_idx))
                    .map(|(_, t1, _)| (*t1).min(to)).max().unwrap_or(0).max(from);
                if to - clean_from <= idle + SLACK_MS {
                    excused.fetch_add(1, std::sync::atomic::Ordering::Relaxed);
                    continue;
                }
                let from = clean_from;
                let len = to - from;
                // two transport-level causes are known findings (F5a/F5b); everything else is fresh
                let key = if len <= 2 * idle + SLACK_MS && cause {
                    "c09:stale-entry:idle-restart-on-send"
                } else if rtt >= INFLATED_RTT_MS && len <= idle + 30 * rtt + SLACK_MS {
                    "c09:stale-entry:inflated-rtt-3pto-floor"
                } else {
                    "c09:stale-entry"
                };
                return Err(Fail::violation(key, format!("{what}: node {a} listed {} from {from} ms to {to} ms ({len} ms) while that peer did not list it back; idle timeout {idle} ms (+{SLACK_MS} ms slack); stale side transmitted after its last receipt: {cause}; stale side's RTT estimate {rtt} ms (link RTT 4 ms)", hex::encode(&b[..4]))));
            }
            Ok(())
        };

        let mut crash_count = 0u8;
        let mut obs_labels: Vec<&'static str> = Vec::new();
        let (mut n_long_fault, mut n_reconnect) = (0, 0);
        let mut disconnected_pairs: Vec<(usize, usize)> = Vec::new();
        let mut kept_handles: BTreeMap<(usize, usize), Vec<anemo::Peer>> = BTreeMap::new();
        for (step, op) in case.ops.iter().enumerate() {
            let what = format!("step {step} {op:?}");
            match op {
                Op::Connect { from, to } | Op::ConnectPinned { from, to } => {
                    let (f, t) = (*from as usize % n, *to as usize % n);
                    if f == t { continue; }
                    let (net, addr, alive) = { let sl = slots.lock().unwrap(); (sl[f].node.net.clone(), sl[t].node.addr(), sl[f].alive) };
                    if !alive { continue; }
                    if disconnected_pairs.contains(&(f, t)) { n_reconnect += 1; }
                    if matches!(op, Op::ConnectPinned { .. }) {
                        let _ = within(15_000, net.connect_with_peer_id(addr, ids[t])).await;
                    } else {
                        let _ = within(15_000, net.connect(addr)).await;
                    }
                    // the application keeps a Peer handle from every dial (as a typed client would)
                    if let Some(h) = net.peer(ids[t]) {
                        let v = kept_handles.entry((f, t)).or_insert_with(Vec::new);
                        if v.len() < 4 { v.push(h); }
                    }
                }
                Op::Disconnect { at, peer } => {
                    let (a, p) = (*at as usize % n, *peer as usize % n);
                    if a == p { continue; }
                    let (net, alive) = { let sl = slots.lock().unwrap(); (sl[a].node.net.clone(), sl[a].alive) };
                    if !alive { continue; }
                    let was_listed = net.peers().contains(&ids[p]);
                    let sub = net.subscribe();
                    let _ = net.disconnect(ids[p]);
                    // removed locally at once
                    vensure!(!net.peers().contains(&ids[p]), "c09:disconnect-not-immediate", "{what}: peer still listed right after disconnect()");
                    if was_listed {
                        disconnected_pairs.push((a, p));
                        // the next event for that peer is LostPeer(Requested)
                        if let Ok((mut rx, _)) = sub {
                            let mut first = None;
                            while let Ok(e) = rx.try_recv() {
                                let pid = match &e { PeerEvent::NewPeer(p) | PeerEvent::LostPeer(p, _) => *p };
                                if pid == ids[p] { first = Some(e); break; }
                            }
                            vensure!(first == Some(PeerEvent::LostPeer(ids[p], DisconnectReason::Requested)), "c09:disconnect-event", "{what}: the next event for the disconnected peer is {:?}, expected LostPeer(_, Requested)", first);
                        }
                        // RPCs to it fail until a new connection exists
                        let ctl = Ctl { id: 50_000 + step as u64, delay_ms: 0, status_idx: 0, resp_len: 1, resp_hdrs: 0, mode: 0 };
                        if !net.peers().contains(&ids[p]) {
                            if let Ok(Ok(_)) = within(2_000, net.rpc(ids[p], ctl_request("/after-disconnect", &[], &ctl, 30))).await {
                                vensure!(net.peers().contains(&ids[p]), "c09:rpc-after-disconnect", "{what}: an RPC to the disconnected peer succeeded although no new connection was established");
                            }
                            // ... also through Peer handles the application kept from earlier dials (connections
                            // that were replaced in the meantime included)
                            for (k, mut h) in kept_handles.remove(&(a, p)).unwrap_or_default().into_iter().enumerate() {
                                if let Ok(Ok(_)) = within(2_000, h.rpc(ctl_request("/after-disconnect", &[], &ctl, 30))).await {
                                    vensure!(net.peers().contains(&ids[p]), "c09:rpc-after-disconnect", "{what}: an RPC through Peer handle number {k} kept from an earlier dial succeeded after the disconnect although no new connection was established");
                                }
                            }
                        }
                    }
                }
                Op::Rpc { from, to } => {
                    let (f, t) = (*from as usize % n, *to as usize % n);
                    if f == t { continue; }
                    let (net, alive) = { let sl = slots.lock().unwrap(); (sl[f].node.net.clone(), sl[f].alive) };
                    if !alive { continue; }
                    let ctl = Ctl { id: step as u64, delay_ms: 0, status_idx: 0, resp_len: 4, resp_hdrs: 0, mode: 0 };
                    let _ = within(3_000, net.rpc(ids[t], ctl_request("/r", &[], &ctl, 30))).await;
                }
                Op::ShutdownRestart { node, down_ms } => {
                    let i = *node as usize % n;
                    let net = { let mut sl = slots.lock().unwrap(); if !sl[i].alive { continue; } sl[i].alive = false; sl[i].node.net.clone() };
                    match within(10_000, net.shutdown()).await {
                        Ok(_) => {}
                        Err(()) => vfail!("c09:shutdown-hang", "{what}: shutdown did not return"),
                    }
                    sleep_ms(*down_ms as u64).await;
                    // same key, same address (a graceful shutdown frees it at once)
                    let mut s = spec(i);
                    s.addr = slots.lock().unwrap()[i].node.addr();
                    drop(net);
                    if sim.fabric.is_bound(s.addr) {
                        // (that the address is free again at once is C08's business; here we go on)
                        crash_count += 1;
                        s.addr = node_addr(40 + crash_count);
                        obs_labels.push("address-not-freed-by-shutdown");
                    }
                    let fresh = sim.node_with(s)?;
                    let mut sl = slots.lock().unwrap();
                    let mut addrs = sl[i].addrs.clone();
                    addrs.push(fresh.addr());
                    let events = fresh.net.subscribe().ok().map(|(rx, _)| rx);
                    sl[i] = Slot { node: fresh, alive: true, events, addrs };
                }
                Op::Crash { node, down_ms } => {
                    let i = *node as usize % n;
                    {
                        let mut sl = slots.lock().unwrap();
                        if !sl[i].alive { continue; }
                        sl[i].alive = false;
                        sim.fabric.set_blackhole(sl[i].node.addr(), true);
                    }
                    if *down_ms as u64 > idle { n_long_fault += 1; }
                    sleep_ms(*down_ms as u64).await;
                    crash_count += 1;
                    let mut s = spec(i);
                    s.addr = node_addr(40 + crash_count);
                    let fresh = sim.node_with(s)?;
                    let mut sl = slots.lock().unwrap();
                    let mut addrs = sl[i].addrs.clone();
                    addrs.push(fresh.addr());
                    let events = fresh.net.subscribe().ok().map(|(rx, _)| rx);
                    let old = std::mem::replace(&mut sl[i], Slot { node: fresh, alive: true, events, addrs });
                    graveyard.lock().unwrap().push(old.node); // never closed; dropped only when the case is over
                }
                Op::Partition { a, b, one_way, ms } => {
                    let (a, b) = (*a % n as u8, *b % n as u8);
                    if a == b { continue; }
                    let t0 = sim.now_ms();
                    if *ms as u64 > idle { n_long_fault += 1; }
                    fault_log.lock().unwrap().push((t0, t0 + *ms as u64, Some((a as usize, b as usize))));
                    sim.fabric.add_fault(FaultSeg { t0_ms: t0, t1_ms: t0 + *ms as u64, from: Some(a), to: Some(b), partition: true, ..Default::default() });
                    if !one_way {
                        sim.fabric.add_fault(FaultSeg { t0_ms: t0, t1_ms: t0 + *ms as u64, from: Some(b), to: Some(a), partition: true, ..Default::default() });
                    }
                }
                Op::Loss { pm, ms } => {
                    let t0 = sim.now_ms();
                    fault_log.lock().unwrap().push((t0, t0 + *ms as u64, None));
                    sim.fabric.add_fault(FaultSeg { t0_ms: t0, t1_ms: t0 + *ms as u64, loss_pm: *pm, ..Default::default() });
                }
                Op::Wait(ms) => sleep_ms(*ms as u64).await,
            }
            evaluate(&tracker, &what)?;
            check_no_panics(&what)?;
        }
        // ---- fault-free tail longer than the idle timeout (faults created above have all expired by then)
        let last_fault_end = 70_000u64; // durations are u16 ms: every segment ends within 65.5 s of its start
        let _ = last_fault_end;
        sim.fabric.clear_faults();
        sleep_ms(2 * idle + 2 * SLACK_MS + 1_000).await;
        sample();
        evaluate(&tracker, "during the fault-free tail")?;
        // connections whose RTT estimate was inflated by faults may take up to 3 PTO to idle out
        let extra = tracker.lock().unwrap().stale_rtt.values().copied().filter(|r| *r >= INFLATED_RTT_MS).max().unwrap_or(0);
        if extra > 0 {
            sleep_ms(30 * extra).await;
            sample();
            evaluate(&tracker, "during the extended fault-free tail")?;
        }
        // anything still one-sided now has been so for longer than allowed
        {
            let tr = tracker.lock().unwrap();
            let now = sim.now_ms();
            for ((a, b), since) in tr.stale_since.iter() {
                if now - since > idle + SLACK_MS {
                    vfail!("c09:views-not-mutual", "after a fault-free tail of {} ms node {a} still lists {} which does not list it back (one-sided since {since} ms; idle timeout {idle} ms)", 2 * idle + 2 * SLACK_MS + 1_000, hex::encode(&b[..4]));
                }
            }
        }
        sampler.abort();
        // every listed peer can actually be reached
        let alive: Vec<(usize, anemo::Network)> = slots.lock().unwrap().iter().enumerate().filter(|(_, s)| s.alive).map(|(i, s)| (i, s.node.net.clone())).collect();
        let mut listed_pairs = 0;
        for (i, net) in &alive {
            for p in net.peers() {
                listed_pairs += 1;
                let ctl = Ctl { id: 90_000 + *i as u64, delay_ms: 0, status_idx: 0, resp_len: 8, resp_hdrs: 0, mode: 0 };
                match within(5_000, net.rpc(p, ctl_request("/tail", &[], &ctl, 40))).await {
                    Ok(Ok(r)) if r.status().to_u16() == 200 => {}
                    other => vfail!("c09:listed-peer-unreachable", "after the fault-free tail node {i} lists {p} but an RPC to it fails: {:?}", other.map(|r| r.map(|x| x.status().to_u16()).map_err(|e| e.to_string()))),
                }
            }
        }
        sim.health()?;
        check_no_panics("at the end")?;
        obs.evals(case.ops.len() as u64);
        obs.label(format!("worst-one-sided-period<= {} x idle", (tracker.lock().unwrap().worst_ms * 2 / idle + 1) as f64 / 2.0));
        if listed_pairs > 0 { obs.label("tail-rpc-checked"); }
        for l in obs_labels { obs.label(l); }
        if n_long_fault > 0 { obs.label("fault-longer-than-idle-timeout"); }
        if n_reconnect > 0 { obs.label("disconnect-then-reconnect"); }
        if n_long_fault > 0 || n_reconnect > 0 {
            obs.nontrivial(&case);
        }
        Ok(())
    })
}

pub struct Histories;
impl Part for Histories {
    type Case = Case;
    fn name(&self) -> &'static str { "histories" }
    fn rule(&self) -> &'static str {
        "2-5 networks (idle timeout 3.5-12 s, keep-alive off or at 10-98 % of the idle timeout; shorter idle timeouts are not generated because QUIC floors the idle period at 3 PTO, which is up to ~3 s before RTT samples exist): per-node idle timeouts may differ (each node's own value bounds how long it may keep a dead entry); histories of connect, connect_with_peer_id, disconnect, rpc, graceful shutdown + restart, crash (black-hole, nothing closed) + restart with the same key on a fresh address, pairwise and ONE-DIRECTIONAL partitions, loss bursts, waits; views sampled every 100 ms of virtual time; oracle: (1) no period during which A lists B while B does not list A lasts longer than idle timeout + 500 ms slack, counted from the end of the last partition or loss burst that touched the pair (a crash is an event, not an ongoing fault); (2) after a fault-free tail views are mutual and every listed peer answers an RPC; (3) disconnect removes at once, the next event for that peer is LostPeer(Requested), RPCs to it fail until reconnected; a one-sided period in (idle+slack, 2*idle+slack] whose stale side transmitted after its last receipt is the known finding F5; non-trivial = a partition/crash longer than the idle timeout, or a disconnect followed by a reconnect; distinct by history"
    }
    fn strategy(&self, _t: Tier) -> BoxedStrategy<Case> {
        let op = prop_oneof![
            4 => (0u8..5, 0u8..5).prop_map(|(from, to)| Op::Connect { from, to }),
            3 => (0u8..5, 0u8..5).prop_map(|(from, to)| Op::ConnectPinned { from, to }),
            2 => (0u8..5, 0u8..5).prop_map(|(at, peer)| Op::Disconnect { at, peer }),
            3 => (0u8..5, 0u8..5).prop_map(|(from, to)| Op::Rpc { from, to }),
            1 => (0u8..5, 0u16..3000).prop_map(|(node, down_ms)| Op::ShutdownRestart { node, down_ms }),
            1 => (0u8..5, prop_oneof![0u16..2000, 2000u16..25_000]).prop_map(|(node, down_ms)| Op::Crash { node, down_ms }),
            2 => (0u8..5, 0u8..5, any::<bool>(), prop_oneof![100u16..2000, 2000u16..25_000]).prop_map(|(a, b, one_way, ms)| Op::Partition { a, b, one_way, ms }),
            1 => (50u16..400, 100u16..5000).prop_map(|(pm, ms)| Op::Loss { pm, ms }),
            4 => prop_oneof![0u16..100, 100u16..3000, 3000u16..25_000].prop_map(Op::Wait),
        ];
        (2u8..6, 3_500u16..12_000, prop_oneof![2 => Just(0u16), 2 => 2_000u16..15_000], any::<bool>(), prop::collection::vec(op, 1..22), prop_oneof![2 => Just(0u8), 1 => 10u8..60, 2 => 60u8..99])
            .prop_map(|(nodes, idle_ms, idle_skew_ms, keep_alive, ops, keep_alive_pct)| Case { nodes, idle_ms, idle_skew_ms, keep_alive, keep_alive_pct, ops })
            .boxed()
    }
    fn run(&self, c: &Case, obs: &mut Obs) -> Result<(), Fail> { check(c, obs) }
}

/// "An explicit disconnect removes the peer locally at once", also while other threads are
/// listing and subscribing: the shared-set stress of C04 with the removal assertion.
pub struct DisconnectUnderContention;
impl Part for DisconnectUnderContention {
    type Case = super::c04::StressCase;
    fn name(&self) -> &'static str { "disconnect-under-contention" }
    fn deterministic(&self) -> bool { false }
    fn rule(&self) -> &'static str {
        "the active-peer set shared by 2-8 OS threads (hook H6, real connections): one thread adds/removes, the others list and subscribe in tight loops; oracle: right after remove() returns the peer is no longer registered, and every observer's snapshot + events reproduces the final listing; real threads, sampled interleavings; non-trivial = a subscription was taken while a mutation was in progress; distinct by case"
    }
    fn strategy(&self, t: Tier) -> BoxedStrategy<super::c04::StressCase> { super::c04::ThreadStress.strategy(t) }
    fn run(&self, c: &super::c04::StressCase, obs: &mut Obs) -> Result<(), Fail> {
        super::c04::stress_case(c, obs).map_err(|e| match e {
            Fail::Violation { key, msg } => Fail::Violation { key: key.replace("c04:", "c09:"), msg },
            other => other,
        })
    }
}

/// The same clause through the public API: `Network::disconnect` while other threads of the
/// application keep calling `Network::peers()` on the same network.
#[derive(Clone, Debug, Serialize, Deserialize, PartialEq, Eq, Hash)]
pub struct ReadersCase {
    pub readers: u8,
    pub rounds: u8,
}

pub struct DisconnectUnderReaders;
impl Part for DisconnectUnderReaders {
    type Case = ReadersCase;
    fn name(&self) -> &'static str { "disconnect-under-readers" }
    fn deterministic(&self) -> bool { false }
    fn rule(&self) -> &'static str {
        "two networks on the fabric; 1-6 OS threads of the application call Network::peers() of A in a tight loop while A connects to B and disconnects it again, 5-60 times; oracle: the moment disconnect() has returned, A.peers() does not contain B any more and A's next event for B is LostPeer (Requested); real threads, sampled interleavings; non-trivial = every case; distinct by case"
    }
    fn strategy(&self, _t: Tier) -> BoxedStrategy<ReadersCase> {
        (1u8..7, 5u8..60).prop_map(|(readers, rounds)| ReadersCase { readers, rounds }).boxed()
    }
    fn run(&self, c: &ReadersCase, obs: &mut Obs) -> Result<(), Fail> {
        let c = c.clone();
        run_sim(95, 1, |sim| async move {
            let a = sim.node(0)?;
            let b = sim.node(1)?;
            let stop = Arc::new(std::sync::atomic::AtomicBool::new(false));
            let threads: Vec<_> = (0..c.readers).map(|_| { let (net, stop) = (a.net.clone(), stop.clone()); std::thread::spawn(move || { let mut n = 0u64; while !stop.load(std::sync::atomic::Ordering::Relaxed) { n += net.peers().len() as u64; } n }) }).collect();
            let result = async {
                for round in 0..c.rounds {
                    match within(20_000, a.net.connect(b.addr())).await {
                        Ok(Ok(_)) => {}
                        _ => return Err(Fail::Inconclusive("connect failed".into())),
                    }
                    let (mut rx, _) = a.net.subscribe().map_err(|e| Fail::Inconclusive(e.to_string()))?;
                    a.net.disconnect(b.id()).map_err(|e| Fail::violation("c09:disconnect-failed", e.to_string()))?;
                    let still = a.net.peers().contains(&b.id());
                    vensure!(!still, "c09:disconnect-not-immediate", "round {round}: disconnect() returned Ok while {} other thread(s) were calling peers(); the peer is still listed", c.readers);
                    match rx.try_recv() {
                        Ok(anemo::types::PeerEvent::LostPeer(p, anemo::types::DisconnectReason::Requested)) if p == b.id() => {}
                        other => vfail!("c09:disconnect-not-immediate", "round {round}: after disconnect() returned the next event is {:?}, not LostPeer(Requested)", other),
                    }
                    // let B notice before the next round
                    for _ in 0..200 { if !b.net.peers().contains(&a.id()) { break; } sleep_ms(5).await; }
                }
                Ok(())
            }.await;
            stop.store(true, std::sync::atomic::Ordering::Relaxed);
            for t in threads { let _ = t.join(); }
            result?;
            sim.health()?;
            obs.evals(c.rounds as u64);
            obs.nontrivial(&c);
            Ok(())
        })
    }
}

pub fn run(tier: Tier) -> i32 {
    let mut ctx = Ctx::new("C09", tier);
    ctx.assume("'eventually' is checked as the bounded virtual-time deadlines the statement names (idle timeout) plus 500 ms slack for RTT/PTO skew and one sampling step");
    ctx.assume("a crashed node is one whose datagrams vanish in both directions and which never closes anything");
    ctx.run_part(Histories, tier.pick(8_000, 500_000));
    ctx.run_part_threads(DisconnectUnderContention, tier.pick(16, 400), 4);
    ctx.run_part_threads(DisconnectUnderReaders, tier.pick(24, 600), 3);
    ctx.finish()
}
