//! C02 — RPC delivery integrity, pairing and at-most-once handling.

use crate::core::*;
use crate::simnet::recorder::{expected_response, fnv, headers_hash};
use crate::simnet::*;
use crate::{vensure, vfail};
use proptest::prelude::*;
use serde::{Deserialize, Serialize};
use std::collections::{BTreeMap, HashMap};

#[derive(Clone, Debug, Serialize, Deserialize, PartialEq, Eq, Hash)]
pub struct Rpc {
    pub from_a: bool,
    pub start_ms: u32,
    pub route: String,
    pub headers: Vec<(String, String)>,
    pub req_len: u32,
    pub delay_ms: u32,
    pub status_idx: u8,
    pub resp_len: u32,
    pub resp_hdrs: u8,
}

#[derive(Clone, Debug, Serialize, Deserialize, PartialEq, Eq, Hash)]
pub struct Case {
    pub rpcs: Vec<Rpc>,
    pub faults: Vec<FaultSeg>,
    pub fault_seed: u64,
    pub link_delay_ms: u8,
    /// optional max_frame_size at A / at B: oversize frames make individual RPCs fail
    /// (after the handler ran, when it is the response that is too big)
    #[serde(default)]
    pub max_frame: (Option<u32>, Option<u32>),
    /// (dialer is A, at ms): the same peer is dialed again while the traffic runs, so the connection
    /// is replaced under in-flight RPCs (they may fail; none may be delivered twice)
    #[serde(default)]
    pub redials: Vec<(bool, u16)>,
    /// (outbound default in s on both nodes, `timeout` header in s on every request): both far
    /// beyond anything the traffic needs, so they cut nothing off; the header is ordinary request
    /// data and must reach the handler as sent
    #[serde(default)]
    pub timeouts: Option<(u32, u32)>,
    /// inbound default timeout (s) on both nodes, again far beyond anything the traffic needs
    #[serde(default)]
    pub inbound_default_s: Option<u32>,
}

pub fn size(max: u32) -> BoxedStrategy<u32> {
    prop_oneof![
        3 => 0u32..200,
        2 => 1100u32..1300,
        2 => 200u32..20_000,
        1 => Just(65_536u32),
        1 => (20_000u32..max.max(20_001)),
        // a few bodies beyond 1 MiB in every tier (paths that treat large bodies differently)
        1 => prop_oneof![4 => Just(0u32), 1 => 1_048_576u32..1_400_000],
    ]
    .boxed()
}

fn header_text() -> BoxedStrategy<String> {
    prop_oneof![
        3 => "[a-z0-9-]{1,10}",
        1 => "\\PC{0,12}",
        1 => Just(String::new()),
        1 => "[ -~]{200,400}",
    ]
    .boxed()
}

pub fn fault_seg(nodes: u8, horizon_ms: u64) -> BoxedStrategy<FaultSeg> {
    (prop_oneof![0..400u64.min(horizon_ms), 0..horizon_ms], 50..horizon_ms, prop::option::of(0..nodes), prop::option::of(0..nodes),
     prop_oneof![Just(0u16), 0u16..250], prop_oneof![Just((0u32, 0u32)), (0u32..10, 1u32..50)], prop_oneof![Just(0u16), 0u16..100])
        .prop_map(|(t0, len, from, to, loss_pm, delay_ms, dup_pm)| FaultSeg { t0_ms: t0, t1_ms: t0 + len, from, to, loss_pm, delay_ms, dup_pm, partition: false })
        .boxed()
}

fn rpc(max_size: u32) -> BoxedStrategy<Rpc> {
    (
        any::<bool>(),
        0u32..300,
        prop_oneof![3 => "/[a-z]{1,6}(/[a-z0-9]{1,6}){0,2}", 1 => "\\PC{0,20}", 1 => Just(String::new())],
        prop::collection::vec((header_text(), header_text()), 0..8),
        size(max_size),
        prop_oneof![2 => Just(0u32), 3 => 0u32..100, 1 => 100u32..2000],
        0u8..8,
        size(max_size),
        0u8..6,
    )
        .prop_map(|(from_a, start_ms, route, headers, req_len, delay_ms, status_idx, resp_len, resp_hdrs)| Rpc {
            from_a, start_ms, route, headers, req_len, delay_ms, status_idx, resp_len, resp_hdrs,
        })
        .boxed()
}

struct Done {
    idx: usize,
    t0: u64,
    t1: u64,
    result: Result<anemo::Response<bytes::Bytes>, String>,
}

pub fn check(case: &Case, obs: &mut Obs) -> Result<(), Fail> {
    let case = case.clone();
    run_sim(case.fault_seed, case.link_delay_ms.max(1) as u64, |sim| async move {
        let mut sa = NodeSpec::new(0);
        sa.config.max_frame_size = case.max_frame.0.map(|n| n as usize);
        let mut sb = NodeSpec::new(1);
        sb.config.max_frame_size = case.max_frame.1.map(|n| n as usize);
        if let Some((d, _)) = case.timeouts {
            sa.config.outbound_request_timeout_ms = Some(d as u64 * 1000);
            sb.config.outbound_request_timeout_ms = Some(d as u64 * 1000);
        }
        if let Some(d) = case.inbound_default_s {
            sa.config.inbound_request_timeout_ms = Some(d as u64 * 1000);
            sb.config.inbound_request_timeout_ms = Some(d as u64 * 1000);
        }
        let timeout_header: Option<(String, String)> = case.timeouts.map(|(_, h)| ("timeout".to_string(), (h as u64 * 1_000_000_000).to_string()));
        let limited = case.max_frame.0.is_some() || case.max_frame.1.is_some() || !case.redials.is_empty();
        let a = sim.node_with(sa)?;
        let b = sim.node_with(sb)?;
        let pb = match within(20_000, a.net.connect(b.addr())).await {
            Ok(Ok(p)) => p,
            other => return Err(Fail::Inconclusive(format!("fault-free connect failed: {:?}", other.map(|r| r.map_err(|e| e.to_string()))))),
        };
        vensure!(pb == b.id(), "c02:connect-id", "connect returned {pb} for node with id {}", b.id());
        // B must see A before it can call back
        for _ in 0..200 {
            if b.net.peers().contains(&a.id()) { break; }
            sleep_ms(5).await;
        }
        let t_base = sim.now_ms();
        let mut faults = case.faults.clone();
        for f in &mut faults {
            f.t0_ms += t_base;
            f.t1_ms += t_base;
        }
        let any_fault = faults.iter().any(|f| f.loss_pm > 0 || f.dup_pm > 0 || f.delay_ms.1 > 0);
        sim.fabric.set_faults(faults);

        let mut handles = Vec::new();
        for (i, r) in case.rpcs.iter().enumerate() {
            let (net, target) = if r.from_a { (a.net.clone(), b.id()) } else { (b.net.clone(), a.id()) };
            let r = r.clone();
            let fabric = sim.fabric.clone();
            let timeout_header = timeout_header.clone();
            handles.push(tokio::spawn(async move {
                sleep_ms(r.start_ms as u64).await;
                let ctl = Ctl { id: i as u64, delay_ms: r.delay_ms, status_idx: r.status_idx, resp_len: r.resp_len, resp_hdrs: r.resp_hdrs, mode: 0 };
                let headers: Vec<_> = r.headers.iter().filter(|(k, _)| k != "timeout").cloned().chain(timeout_header).collect();
                let req = ctl_request(&r.route, &headers, &ctl, r.req_len as usize);
                let t0 = fabric.now_ms();
                let result = match within(600_000, net.rpc(target, req)).await {
                    Ok(Ok(resp)) => Ok(resp),
                    Ok(Err(e)) => Err(e.to_string()),
                    Err(()) => Err("no result within 600 virtual seconds".into()),
                };
                Done { idx: i, t0, t1: fabric.now_ms(), result }
            }));
        }
        let mut redial_tasks = Vec::new();
        for (from_a, at) in &case.redials {
            let (net, addr) = if *from_a { (a.net.clone(), b.addr()) } else { (b.net.clone(), a.addr()) };
            let at = *at as u64;
            redial_tasks.push(tokio::spawn(async move {
                sleep_ms(at).await;
                let _ = within(20_000, net.connect(addr)).await;
            }));
        }
        let mut done = Vec::new();
        for h in handles {
            match h.await {
                Ok(d) => done.push(d),
                Err(e) => vfail!("c02:caller-panic", "caller task failed: {e}"),
            }
        }
        sim.health()?;
        check_no_panics("during RPC traffic")?;

        let mut ok_count = 0;
        let mut sent: BTreeMap<u64, (bool, String, u64, u64, usize)> = BTreeMap::new();
        for d in &done {
            let r = &case.rpcs[d.idx];
            let ctl = Ctl { id: d.idx as u64, delay_ms: r.delay_ms, status_idx: r.status_idx, resp_len: r.resp_len, resp_hdrs: r.resp_hdrs, mode: 0 };
            let body = ctl.encode(r.req_len as usize);
            let hdrs: HashMap<String, String> = r.headers.iter().filter(|(k, _)| k != "timeout").cloned().chain(timeout_header.clone()).collect();
            sent.insert(d.idx as u64, (r.from_a, r.route.clone(), headers_hash(&hdrs), fnv(&body), body.len()));
            let (callee, caller) = if r.from_a { (&b, &a) } else { (&a, &b) };
            let starts = callee.rec.starts_of(d.idx as u64);
            vensure!(starts.len() <= 1, "c02:delivered-twice", "request {} was delivered to the handler {} times", d.idx, starts.len());
            if let Ok(resp) = &d.result {
                ok_count += 1;
                let exp = expected_response(&r.route, &hdrs, &body);
                vensure!(resp.status().to_u16() == exp.status, "c02:status", "rpc {}: status {} but the handler produced {}", d.idx, resp.status().to_u16(), exp.status);
                vensure!(resp.headers() == &exp.headers, "c02:headers", "rpc {}: response headers {:?} but the handler produced {:?} (x-req-hash covers the request the handler saw)", d.idx, resp.headers(), exp.headers);
                vensure!(resp.body() == &exp.body, "c02:body", "rpc {}: response body differs (len {} vs {}, first diff at {:?})", d.idx, resp.body().len(), exp.body.len(),
                    resp.body().iter().zip(exp.body.iter()).position(|(x, y)| x != y));
                vensure!(resp.version() == anemo::types::Version::V1, "c02:version", "rpc {}: version", d.idx);
                vensure!(resp.peer_id() == Some(&callee.id()), "c02:resp-peer", "rpc {}: response attributed to {:?}, callee is {}", d.idx, resp.peer_id(), callee.id());
                vensure!(starts.len() == 1, "c02:phantom-response", "rpc {} returned Ok but the callee logged {} starts for it", d.idx, starts.len());
                let s = &starts[0];
                vensure!(s.route == r.route && s.hdr_hash == headers_hash(&hdrs) && s.body_hash == fnv(&body) && s.body_len == body.len(),
                    "c02:request-altered", "rpc {}: handler saw route {:?} ({} body bytes), caller sent {:?} ({} bytes)", d.idx, s.route, s.body_len, r.route, body.len());
                vensure!(s.peer == Some(caller.id().0) && s.inbound == Some(true), "c02:req-peer", "rpc {}: handler saw peer {:?} direction inbound={:?}", d.idx, s.peer.map(hex::encode), s.inbound);
            }
        }
        // nothing was delivered that nobody sent, and whatever was delivered is what was sent
        for (node, from_a_expected) in [(&b, true), (&a, false)] {
            for rec in node.rec.snapshot().iter().filter(|r| r.ev == Ev::Start) {
                let Some(id) = rec.id else { vfail!("c02:invented-request", "handler saw a request without a control block: route {:?} len {}", rec.route, rec.body_len) };
                match sent.get(&id) {
                    Some((from_a, route, hh, bh, len)) if *from_a == from_a_expected => {
                        vensure!(&rec.route == route && rec.hdr_hash == *hh && rec.body_hash == *bh && rec.body_len == *len, "c02:request-altered",
                            "request {id} reached the handler altered: route {:?} len {} (sent {:?} len {})", rec.route, rec.body_len, route, len);
                    }
                    _ => vfail!("c02:invented-request", "handler at node {} saw request id {id} that was never sent to it", node.addr()),
                }
            }
        }
        // health gate: without faults (nearly) everything must succeed, or the run proves nothing
        if !any_fault && !limited && (ok_count as f64) < 0.99 * done.len() as f64 {
            let first = done.iter().find_map(|d| d.result.as_ref().err().map(|e| (d.idx, e.clone())));
            return Err(Fail::Inconclusive(format!("fault-free case: only {ok_count}/{} RPCs succeeded; first error: {:?}", done.len(), first)));
        }
        // labels
        let mut overlap = false;
        for x in &done {
            for y in &done {
                if x.idx < y.idx && x.t0 < y.t1 && y.t0 < x.t1 {
                    overlap = true;
                }
            }
        }
        let big = case.rpcs.iter().any(|r| r.req_len > 1200 || r.resp_len > 1200);
        let st = sim.fabric.stats();
        let fault_hit = st.dropped_fault + st.duplicated + st.delayed > 0;
        for t in redial_tasks { let _ = t.await; }
        if !case.redials.is_empty() { obs.label("connection-replaced-under-traffic"); }
        if case.max_frame.0.is_some() || case.max_frame.1.is_some() { obs.label("frame-limit-configured"); }
        if limited && ok_count < done.len() { obs.label("rpc-failed-on-frame-limit"); }
        if overlap { obs.label("overlapping-rpcs"); }
        if big { obs.label("multi-datagram-body"); }
        if fault_hit { obs.label("fault-hit-a-datagram"); }
        if case.rpcs.iter().any(|r| r.from_a) && case.rpcs.iter().any(|r| !r.from_a) { obs.label("both-directions"); }
        obs.label(format!("ok={}%", if done.is_empty() { 100 } else { (ok_count * 10 / done.len()) * 10 }));
        obs.evals(done.len() as u64);
        if overlap || big || fault_hit {
            obs.nontrivial(&case);
        }
        Ok(())
    })
}

pub struct Traffic(pub u32);
impl Part for Traffic {
    type Case = Case;
    fn name(&self) -> &'static str { "traffic" }
    fn rule(&self) -> &'static str {
        "one connection A<->B on the virtual fabric, 1-40 RPCs in both directions with generated start offsets, routes (any string), 0-8 headers, request/response sizes 0..multi-MiB (incl. 1199-1201 = one datagram), handler delays (arbitrary completion order), all eight status codes, optional re-dials that replace the connection under the traffic, optional max_frame_size on either side (oversize frames fail single RPCs, possibly after the handler ran), optionally outbound and/or inbound default timeouts of hours on both nodes together with a `timeout` header of hours on every request (larger or smaller than the default; it cuts nothing off and must reach the handler as sent), and a fault script (loss <=25%, delay jitter <=50 ms => reordering, duplication <=10%); server behaviour is a pure function F of the request; oracle: Ok(resp) => resp == F(request sent) exactly and exactly one handler start with the sent route/headers/body; starts <= 1 for every id; nothing delivered that was not sent; non-trivial = >=2 RPCs overlapping in virtual time, or a body spanning >1 datagram, or a fault that hit a datagram; distinct by case"
    }
    fn strategy(&self, _t: Tier) -> BoxedStrategy<Case> {
        let max = self.0;
        let lim = || prop_oneof![6 => Just(None), 1 => (200u32..100_000).prop_map(Some), 1 => (200u32..3_000).prop_map(Some)];
        let redials = prop_oneof![3 => Just(vec![]), 1 => prop::collection::vec((any::<bool>(), 0u16..400), 1..3)];
        let timeouts = prop_oneof![3 => Just(None), 1 => (3_600u32..86_400, 1u32..400_000).prop_map(|(d, h)| Some((d, 3_600 + h)))];
        let inbound = prop_oneof![3 => Just(None), 1 => (3_600u32..86_400).prop_map(Some)];
        (prop::collection::vec(rpc(max), 1..40), prop::collection::vec(fault_seg(2, 3000), 0..4), any::<u64>(), 1u8..30, (lim(), lim()), redials, timeouts, inbound)
            .prop_map(|(rpcs, faults, fault_seed, link_delay_ms, max_frame, redials, timeouts, inbound_default_s)| Case { rpcs, faults, fault_seed, link_delay_ms, max_frame, redials, timeouts, inbound_default_s })
            .boxed()
    }
    fn run(&self, c: &Case, obs: &mut Obs) -> Result<(), Fail> { check(c, obs) }
}

pub fn run(tier: Tier) -> i32 {
    let mut ctx = Ctx::new("C02", tier);
    ctx.assume("trusted base: tokio's paused clock, the in-memory fabric, quinn/rustls correctness below the anemo layer");
    ctx.assume("errors are allowed outcomes under faults; a fault-free case with <99% success is reported inconclusive, not as a violation");
    ctx.run_part(Traffic(tier.pick(300_000, 4_000_000)), tier.pick(8_000, 150_000));
    ctx.finish()
}
