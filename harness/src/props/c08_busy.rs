//! C08 part E — shutdown with handlers that are *running*, not parked.
//!
//! The virtual-time simulator is single-threaded: whenever `shutdown()` is polled, every handler
//! is parked at an `.await`, and a task parked there is dropped the moment it is aborted. On a
//! multi-thread runtime a handler can be in the middle of a synchronous stretch (hashing,
//! `block_in_place`, simply being polled on another worker) when the shutdown happens; an aborted
//! task is dropped only when that poll returns. "Every clone of the user's service has been
//! dropped" once `shutdown()` has returned must hold for that in-flight work too, so this part
//! runs real networks on a real multi-thread runtime (loopback UDP) with generated handler
//! behaviours and checks the reference count of a token owned by every service clone and every
//! handler future at the instant `shutdown()` returns.

use crate::core::*;
use crate::vensure;
use proptest::prelude::*;
use serde::{Deserialize, Serialize};
use std::sync::atomic::{AtomicUsize, Ordering};
use std::sync::Arc;
use std::time::{Duration, Instant};

#[derive(Clone, Debug, Serialize, Deserialize, PartialEq, Eq, Hash)]
pub struct BusyCase {
    pub workers: u8,
    /// per in-flight inbound RPC: (style, busy_ms). style 0: synchronous stretch (thread sleeps in
    /// 2 ms slices), 1: parked at an await (tokio sleep), 2: block_in_place, 3: synchronous 5 ms
    /// slices separated by yield_now (re-polled over and over), 4: spawn_blocking joined by the handler
    pub handlers: Vec<(u8, u8)>,
    /// shutdown is called this many ms after every handler has started
    pub delay_ms: u8,
    /// the side that shuts down also has RPCs of its own in flight towards the other side
    pub outbound_too: bool,
    /// 0: shutdown() on the only handle, 1: shutdown() on a clone while another clone is alive,
    /// 2: two concurrent shutdown() calls
    pub mode: u8,
}

fn busy_ms(b: u8) -> u64 {
    30 + b as u64 % 171
}

fn cfg() -> anemo::Config {
    let mut c = anemo::Config::default();
    c.shutdown_idle_timeout_ms = Some(200);
    c.connect_timeout_ms = Some(3_000);
    c
}

type Svc = tower::util::BoxCloneService<anemo::Request<bytes::Bytes>, anemo::Response<bytes::Bytes>, std::convert::Infallible>;

fn busy_service(token: Arc<()>, started: Arc<AtomicUsize>) -> Svc {
    use tower::ServiceExt;
    tower::service_fn(move |req: anemo::Request<bytes::Bytes>| {
        let token = token.clone();
        let started = started.clone();
        async move {
            let _token = token;
            let body = req.into_body();
            let (style, ms) = (body.first().copied().unwrap_or(1), body.get(1).copied().unwrap_or(0));
            let total = Duration::from_millis(busy_ms(ms));
            started.fetch_add(1, Ordering::SeqCst);
            match style % 5 {
                0 => {
                    let until = Instant::now() + total;
                    while Instant::now() < until {
                        std::thread::sleep(Duration::from_millis(2));
                    }
                }
                1 => tokio::time::sleep(total).await,
                2 => tokio::task::block_in_place(|| std::thread::sleep(total)),
                3 => {
                    let until = Instant::now() + total;
                    while Instant::now() < until {
                        std::thread::sleep(Duration::from_millis(5));
                        tokio::task::yield_now().await;
                    }
                }
                _ => {
                    let _ = tokio::task::spawn_blocking(move || std::thread::sleep(total)).await;
                }
            }
            Ok::<_, std::convert::Infallible>(anemo::Response::new(body))
        }
    })
    .boxed_clone()
}

fn plain_service() -> Svc {
    use tower::ServiceExt;
    tower::service_fn(|req: anemo::Request<bytes::Bytes>| async move {
        tokio::time::sleep(Duration::from_millis(300)).await;
        Ok::<_, std::convert::Infallible>(anemo::Response::new(req.into_body()))
    })
    .boxed_clone()
}

pub struct BusyHandlers;
impl Part for BusyHandlers {
    type Case = BusyCase;
    fn name(&self) -> &'static str { "busy-handlers" }
    fn deterministic(&self) -> bool { false }
    fn rule(&self) -> &'static str {
        "two real networks on a multi-thread runtime (2-8 workers, loopback UDP); 1-6 inbound RPCs are in flight at the node that shuts down, each handler with a generated behaviour (synchronous stretch of 30-200 ms, parked at an await, block_in_place, synchronous slices separated by yield_now, spawn_blocking joined by the handler); shutdown() is called a generated 0-120 ms after all handlers started, on the only handle, on a clone, or twice concurrently, optionally with outbound RPCs of the node in flight too; oracle at the instant the first shutdown() returns Ok: a token owned by every clone of the user's service and by every handler future has no owner left but the harness, the network reports closed with no peers, its address can be re-bound, and every in-flight caller gets a result (not a hang); a step that merely takes long (>20 s) is inconclusive; non-trivial = at least one handler was inside a synchronous stretch (not parked) when shutdown was called and a worker thread was free to run the shutdown; distinct by case"
    }
    fn strategy(&self, _t: Tier) -> BoxedStrategy<BusyCase> {
        (2u8..9, prop::collection::vec((0u8..5, any::<u8>()), 1..7), 0u8..121, any::<bool>(), 0u8..3)
            .prop_map(|(workers, handlers, delay_ms, outbound_too, mode)| BusyCase { workers, handlers, delay_ms, outbound_too, mode })
            .boxed()
    }
    fn fixed_cases(&self) -> Vec<BusyCase> {
        vec![
            BusyCase { workers: 4, handlers: vec![(0, 170)], delay_ms: 0, outbound_too: false, mode: 0 },
            BusyCase { workers: 4, handlers: vec![(2, 170), (1, 50)], delay_ms: 10, outbound_too: true, mode: 1 },
            BusyCase { workers: 6, handlers: vec![(3, 170), (0, 100), (4, 100)], delay_ms: 5, outbound_too: false, mode: 2 },
        ]
    }
    fn run(&self, c: &BusyCase, obs: &mut Obs) -> Result<(), Fail> {
        let workers = c.workers.clamp(2, 8) as usize;
        let rt = tokio::runtime::Builder::new_multi_thread().worker_threads(workers).enable_all().build().map_err(|e| Fail::Inconclusive(format!("runtime: {e}")))?;
        let token = Arc::new(());
        let started = Arc::new(AtomicUsize::new(0));
        let n = c.handlers.len();
        let slow = |what: &str| Fail::Inconclusive(format!("{what} took more than 20 s (machine load?); case {c:?}"));
        let res: Result<(bool, usize), Fail> = rt.block_on(async {
            let server = anemo::Network::bind("127.0.0.1:0").server_name("busy").private_key(crate::simnet::key_seed(7001)).config(cfg()).start(busy_service(token.clone(), started.clone())).map_err(|e| Fail::Inconclusive(format!("bind: {e}")))?;
            let client = anemo::Network::bind("127.0.0.1:0").server_name("busy").private_key(crate::simnet::key_seed(7002)).config(cfg()).start(plain_service()).map_err(|e| Fail::Inconclusive(format!("bind: {e}")))?;
            let addr = server.local_addr();
            let sid = match tokio::time::timeout(Duration::from_secs(20), client.connect(addr)).await {
                Ok(Ok(id)) => id,
                Ok(Err(e)) => return Err(Fail::Inconclusive(format!("connect: {e}"))),
                Err(_) => return Err(slow("connect")),
            };
            let mut calls = Vec::new();
            for (style, ms) in &c.handlers {
                let (cl, body) = (client.clone(), bytes::Bytes::from(vec![*style, *ms]));
                calls.push(tokio::spawn(async move { cl.rpc(sid, anemo::Request::new(body)).await.is_ok() }));
            }
            if c.outbound_too {
                for _ in 0..2 {
                    let (sv, cid) = (server.clone(), client.peer_id());
                    calls.push(tokio::spawn(async move { sv.rpc(cid, anemo::Request::new(bytes::Bytes::from_static(b"out"))).await.is_ok() }));
                }
            }
            let t = Instant::now();
            while started.load(Ordering::SeqCst) < n {
                if t.elapsed() > Duration::from_secs(20) {
                    return Err(slow("starting the handlers"));
                }
                tokio::time::sleep(Duration::from_millis(1)).await;
            }
            let all_started = Instant::now();
            tokio::time::sleep(Duration::from_millis(c.delay_ms as u64)).await;
            let since = all_started.elapsed();
            // handlers that are inside a synchronous stretch right now (they all started at about the same time)
            let running_sync = c.handlers.iter().filter(|(s, ms)| matches!(s % 5, 0 | 2 | 3) && Duration::from_millis(busy_ms(*ms)) > since + Duration::from_millis(15)).count();
            // block_in_place hands its worker's queue to a fresh thread, so only styles 0 and 3 occupy a worker
            let occupying = c.handlers.iter().filter(|(s, _)| matches!(s % 5, 0 | 3)).count();
            let nontrivial = running_sync > 0 && occupying < workers;
            let keep = if c.mode % 3 == 1 { Some(server.clone()) } else { None };
            let begin = Instant::now();
            let first = match c.mode % 3 {
                2 => {
                    let s2 = server.clone();
                    let other = tokio::spawn(async move { s2.shutdown().await.is_ok() });
                    let r = tokio::time::timeout(Duration::from_secs(20), server.shutdown()).await;
                    // whichever call returned Ok first, the state is judged after this one returned Ok
                    let _ = other;
                    r
                }
                _ => tokio::time::timeout(Duration::from_secs(20), server.shutdown()).await,
            };
            let ok = match first {
                Err(_) => return Err(slow("shutdown()")),
                Ok(r) => r.is_ok(),
            };
            let owners = Arc::strong_count(&token) - 1;
            let took = begin.elapsed();
            if ok {
                vensure!(owners == 0, "c08:service-clone-alive", "shutdown() returned Ok after {took:?} while {owners} clone(s) of the user's service or of its handler futures were still alive (handlers in flight: {:?}, {running_sync} inside a synchronous stretch); case {c:?}", c.handlers);
                vensure!(server.is_closed(), "c08:not-closed", "shutdown() returned Ok but is_closed() is false; case {c:?}");
                vensure!(server.peers().is_empty(), "c08:peers-after-shutdown", "shutdown() returned Ok but peers() = {:?}; case {c:?}", server.peers());
                if let Err(e) = std::net::UdpSocket::bind(addr) {
                    return Err(Fail::violation("c08:address-still-bound", format!("shutdown() returned Ok but {addr} cannot be re-bound: {e}; case {c:?}")));
                }
            } else if c.mode % 3 != 2 {
                return Err(Fail::violation("c08:shutdown-refused", format!("the first and only shutdown() call returned an error; case {c:?}")));
            }
            drop(keep);
            for h in calls {
                match tokio::time::timeout(Duration::from_secs(20), h).await {
                    Err(_) => return Err(Fail::violation("c08:pending-call-hung", format!("an RPC in flight at shutdown had no result 20 s after shutdown() returned; case {c:?}"))),
                    Ok(_) => {}
                }
            }
            drop(client);
            Ok((nontrivial, running_sync))
        });
        rt.shutdown_timeout(Duration::from_secs(5));
        let (nontrivial, running_sync) = res?;
        if nontrivial {
            obs.nontrivial(c);
        }
        obs.label(format!("sync-running:{}", running_sync.min(3)));
        obs.label(format!("mode:{}", c.mode % 3));
        Ok(())
    }
}

pub fn run_busy(ctx: &mut Ctx, tier: Tier) {
    ctx.run_part_threads(BusyHandlers, tier.pick(60, 1_500), 4);
}
