//! C08 part D — the runtime-teardown racer.
//!
//! Each case runs in a child process (`vcheck c08-child <json>`) on a multi-thread tokio runtime
//! with real loopback UDP. A `tracing::Subscriber` supplied by the harness is entered on every
//! poll of the `connection-manager` span and on every event emitted by anemo; at a generated
//! occurrence it blocks that worker thread for a while (a legal pre-emption) and the main thread
//! tears the runtime down in the meantime. Nothing in anemo's behaviour is changed; the only hook
//! read is the accept-None counter (H3), to recognise the hot loop deterministically.

use crate::core::*;
use crate::panics;
use proptest::prelude::*;
use serde::{Deserialize, Serialize};
use std::collections::HashMap;
use std::sync::atomic::{AtomicBool, AtomicU64, Ordering};
use std::sync::Mutex;
use std::time::{Duration, Instant};

#[derive(Clone, Debug, Serialize, Deserialize, PartialEq, Eq, Hash)]
pub struct RaceCase {
    pub workers: u8,
    /// 0 idle, 1 connected, 2 rpcs in flight both ways, 3 pending dial to a silent address,
    /// 4 inbound handshake in progress, 5 explicit shutdown in progress, 6 last handle being dropped
    pub scenario: u8,
    /// 0: block on the k-th poll of the connection-manager span, 1: on the k-th anemo event
    pub site: u8,
    pub occurrence: u8,
    pub block_ms: u8,
    /// 0 drop(runtime), 1 shutdown_timeout(50ms), 2 shutdown_background
    pub teardown: u8,
    /// keep the network handles alive across the teardown
    pub keep_handles: bool,
}

#[derive(Clone, Debug, Default, Serialize, Deserialize)]
pub struct ChildReport {
    pub panics: Vec<(String, String)>,
    pub hit: bool,
    pub teardown_returned: bool,
    pub spin: bool,
    pub stuck: bool,
    /// while stuck: CPU milliseconds the whole process consumed during the last 10 s of waiting
    #[serde(default)]
    pub stuck_cpu_ms: Option<u64>,
    pub accept_none_total: u64,
}

// ------------------------------------------------------------------ the pre-empting subscriber

static ARMED: AtomicBool = AtomicBool::new(false);
static SITE: AtomicU64 = AtomicU64::new(0);
static TARGET: AtomicU64 = AtomicU64::new(0);
static COUNT: AtomicU64 = AtomicU64::new(0);
static BLOCK_MS: AtomicU64 = AtomicU64::new(0);
static HIT: AtomicBool = AtomicBool::new(false);
static NEXT_SPAN: AtomicU64 = AtomicU64::new(1);
static MANAGER_SPANS: Mutex<Option<HashMap<u64, ()>>> = Mutex::new(None);

fn maybe_block(site: u64) {
    if !ARMED.load(Ordering::SeqCst) || SITE.load(Ordering::SeqCst) != site || HIT.load(Ordering::SeqCst) {
        return;
    }
    let n = COUNT.fetch_add(1, Ordering::SeqCst);
    if n == TARGET.load(Ordering::SeqCst) {
        HIT.store(true, Ordering::SeqCst);
        std::thread::sleep(Duration::from_millis(BLOCK_MS.load(Ordering::SeqCst)));
    }
}

struct Preempt;
impl tracing::Subscriber for Preempt {
    fn enabled(&self, meta: &tracing::Metadata<'_>) -> bool {
        meta.target().starts_with("anemo")
    }
    fn new_span(&self, attrs: &tracing::span::Attributes<'_>) -> tracing::span::Id {
        let id = NEXT_SPAN.fetch_add(1, Ordering::SeqCst);
        if attrs.metadata().name() == "connection-manager" {
            MANAGER_SPANS.lock().unwrap().get_or_insert_with(HashMap::new).insert(id, ());
        }
        tracing::span::Id::from_u64(id)
    }
    fn record(&self, _: &tracing::span::Id, _: &tracing::span::Record<'_>) {}
    fn record_follows_from(&self, _: &tracing::span::Id, _: &tracing::span::Id) {}
    fn event(&self, _event: &tracing::Event<'_>) {
        maybe_block(1);
    }
    fn enter(&self, id: &tracing::span::Id) {
        let is_manager = MANAGER_SPANS.lock().unwrap().as_ref().map_or(false, |m| m.contains_key(&id.into_u64()));
        if is_manager {
            maybe_block(0);
        }
    }
    fn exit(&self, _: &tracing::span::Id) {}
}

// ------------------------------------------------------------------ the child process

fn echo_service() -> tower::util::BoxCloneService<anemo::Request<bytes::Bytes>, anemo::Response<bytes::Bytes>, std::convert::Infallible> {
    use tower::ServiceExt;
    tower::service_fn(|req: anemo::Request<bytes::Bytes>| async move {
        // handlers are slow so that RPCs are in flight at teardown
        tokio::time::sleep(Duration::from_millis(400)).await;
        Ok::<_, std::convert::Infallible>(anemo::Response::new(req.into_body()))
    })
    .boxed_clone()
}

fn network(i: u64) -> anyhow::Result<anemo::Network> {
    let mut c = anemo::Config::default();
    c.connectivity_check_interval_ms = Some(20);
    c.shutdown_idle_timeout_ms = Some(200);
    c.connect_timeout_ms = Some(2_000);
    anemo::Network::bind("127.0.0.1:0").server_name("racer").private_key(crate::simnet::key_seed(4000 + i)).config(c).start(echo_service())
}

pub fn child_main(args: &[String]) -> i32 {
    let Some(json) = args.first() else { return 2 };
    let case: RaceCase = match serde_json::from_str(json) {
        Ok(c) => c,
        Err(e) => {
            eprintln!("bad case: {e}");
            return 2;
        }
    };
    let _ = tracing::subscriber::set_global_default(Preempt);
    SITE.store(case.site as u64 % 2, Ordering::SeqCst);
    TARGET.store(case.occurrence as u64, Ordering::SeqCst);
    BLOCK_MS.store(50 + case.block_ms as u64 % 101, Ordering::SeqCst);
    let report = std::sync::Arc::new(Mutex::new(ChildReport::default()));
    let finish = |report: &std::sync::Arc<Mutex<ChildReport>>| -> ! {
        let mut r = report.lock().unwrap().clone();
        r.hit = HIT.load(Ordering::SeqCst);
        r.accept_none_total = anemo::verif::accept_none_counters().1;
        for p in panics::take_global() {
            r.panics.push((p.key(), p.describe()));
        }
        println!("RACER-REPORT {}", serde_json::to_string(&r).unwrap());
        std::process::exit(0)
    };
    let rt = tokio::runtime::Builder::new_multi_thread().worker_threads(case.workers.clamp(1, 8) as usize).enable_all().build().expect("runtime");
    let silent = std::net::UdpSocket::bind("127.0.0.1:0").expect("silent socket");
    let silent_addr = silent.local_addr().unwrap();
    // ---- scenario
    let handles: Vec<anemo::Network> = rt.block_on(async {
        let a = network(1).expect("network a");
        let mut nets = vec![a.clone()];
        let scenario = case.scenario % 7;
        if scenario >= 1 {
            let b = network(2).expect("network b");
            let _ = tokio::time::timeout(Duration::from_secs(5), a.connect(b.local_addr())).await;
            nets.push(b.clone());
            if scenario == 2 {
                for _ in 0..4 {
                    let (x, y) = (a.clone(), b.clone());
                    tokio::spawn(async move { let _ = x.rpc(y.peer_id(), anemo::Request::new(bytes::Bytes::from_static(b"hi"))).await; });
                    let (x, y) = (b.clone(), a.clone());
                    tokio::spawn(async move { let _ = x.rpc(y.peer_id(), anemo::Request::new(bytes::Bytes::from_static(b"ho"))).await; });
                }
                tokio::time::sleep(Duration::from_millis(30)).await;
            }
            if scenario == 4 {
                let c = network(3).expect("network c");
                let addr = a.local_addr();
                let c2 = c.clone();
                tokio::spawn(async move { let _ = c2.connect(addr).await; });
                nets.push(c);
            }
        }
        if scenario == 3 {
            let x = a.clone();
            tokio::spawn(async move { let _ = x.connect(silent_addr).await; });
            tokio::time::sleep(Duration::from_millis(20)).await;
        }
        // keep the manager's mailbox busy so that it is polled often (its tick has up to 1 s of random jitter)
        {
            let x = a.clone();
            tokio::spawn(async move {
                loop {
                    let y = x.clone();
                    tokio::spawn(async move { let _ = y.connect(silent_addr).await; });
                    tokio::time::sleep(Duration::from_millis(3)).await;
                }
            });
        }
        if scenario == 5 {
            let x = a.clone();
            tokio::spawn(async move { let _ = x.shutdown().await; });
        }
        nets
    });
    let mut kept = Vec::new();
    if case.keep_handles && case.scenario % 7 != 6 {
        kept = handles;
    } else {
        drop(handles);
    }
    // ---- arm the pre-emption and wait (briefly) until a worker is blocked in it
    ARMED.store(true, Ordering::SeqCst);
    let t0 = Instant::now();
    while !HIT.load(Ordering::SeqCst) && t0.elapsed() < Duration::from_millis(400) {
        std::thread::sleep(Duration::from_millis(1));
    }
    // ---- watchdog: a teardown that does not return is examined, not guessed at
    let done = std::sync::Arc::new(AtomicBool::new(false));
    {
        let done = done.clone();
        let report = report.clone();
        std::thread::spawn(move || {
            let t = Instant::now();
            while t.elapsed() < Duration::from_secs(5) {
                if done.load(Ordering::SeqCst) { return; }
                std::thread::sleep(Duration::from_millis(20));
            }
            // spin signature: the accept-None counter races ahead
            let c1 = anemo::verif::accept_none_counters().1;
            std::thread::sleep(Duration::from_millis(200));
            let c2 = anemo::verif::accept_none_counters().1;
            if c2.saturating_sub(c1) > 1_000_000 {
                report.lock().unwrap().spin = true;
            } else {
                // give it more time before calling it stuck, and measure what the process does meanwhile
                let cpu_ms = || unsafe {
                    let mut ru: libc::rusage = std::mem::zeroed();
                    libc::getrusage(libc::RUSAGE_SELF, &mut ru);
                    (ru.ru_utime.tv_sec as u64 + ru.ru_stime.tv_sec as u64) * 1000 + (ru.ru_utime.tv_usec as u64 + ru.ru_stime.tv_usec as u64) / 1000
                };
                let cpu0 = cpu_ms();
                let t = Instant::now();
                while t.elapsed() < Duration::from_secs(10) {
                    if done.load(Ordering::SeqCst) { return; }
                    std::thread::sleep(Duration::from_millis(50));
                }
                let mut r = report.lock().unwrap();
                r.stuck = true;
                r.stuck_cpu_ms = Some(cpu_ms().saturating_sub(cpu0));
                drop(r);
            }
            let mut r = report.lock().unwrap().clone();
            r.hit = HIT.load(Ordering::SeqCst);
            r.accept_none_total = anemo::verif::accept_none_counters().1;
            for p in panics::take_global() { r.panics.push((p.key(), p.describe())); }
            println!("RACER-REPORT {}", serde_json::to_string(&r).unwrap());
            std::process::exit(0);
        });
    }
    match case.teardown % 3 {
        0 => drop(rt),
        1 => rt.shutdown_timeout(Duration::from_millis(50)),
        _ => rt.shutdown_background(),
    }
    done.store(true, Ordering::SeqCst);
    report.lock().unwrap().teardown_returned = true;
    // after a background / timed-out shutdown no runtime thread may keep burning CPU
    std::thread::sleep(Duration::from_millis(300));
    let c1 = anemo::verif::accept_none_counters().1;
    std::thread::sleep(Duration::from_millis(200));
    let c2 = anemo::verif::accept_none_counters().1;
    if c2.saturating_sub(c1) > 1_000_000 {
        report.lock().unwrap().spin = true;
    }
    drop(kept);
    drop(silent);
    std::thread::sleep(Duration::from_millis(50));
    finish(&report)
}

// ------------------------------------------------------------------ the parent side

fn run_child(case: &RaceCase) -> Result<ChildReport, String> {
    let exe = std::env::current_exe().map_err(|e| e.to_string())?;
    let json = serde_json::to_string(case).unwrap();
    let mut child = std::process::Command::new(exe)
        .arg("c08-child")
        .arg(&json)
        .stdout(std::process::Stdio::piped())
        .stderr(std::process::Stdio::null())
        .spawn()
        .map_err(|e| e.to_string())?;
    let t = Instant::now();
    loop {
        match child.try_wait() {
            Ok(Some(_)) => break,
            Ok(None) => {
                if t.elapsed() > Duration::from_secs(30) {
                    let _ = child.kill();
                    let _ = child.wait();
                    return Err("child did not finish within 30 s and showed no spin signature".into());
                }
                std::thread::sleep(Duration::from_millis(10));
            }
            Err(e) => return Err(e.to_string()),
        }
    }
    let out = child.wait_with_output().map_err(|e| e.to_string())?;
    let text = String::from_utf8_lossy(&out.stdout);
    for line in text.lines() {
        if let Some(j) = line.strip_prefix("RACER-REPORT ") {
            return serde_json::from_str(j).map_err(|e| e.to_string());
        }
    }
    Err(format!("child ended without a report (status {:?})", out.status))
}

pub struct Racer;
impl Part for Racer {
    type Case = RaceCase;
    fn name(&self) -> &'static str { "teardown-racer" }
    fn deterministic(&self) -> bool { false }
    fn rule(&self) -> &'static str {
        "child processes on a multi-thread runtime (1-8 workers, real loopback UDP): scenario in {idle, connected, RPCs in flight both ways, pending dial to a silent address, inbound handshake in progress, explicit shutdown in progress, last handle being dropped}; a harness-supplied tracing subscriber blocks one worker for 50-150 ms at the k-th poll of the connection-manager span or the k-th anemo event while the main thread tears the runtime down (drop, shutdown_timeout, shutdown_background), with handles kept alive or not; oracle: no panic anywhere in the process, teardown returns, and neither during nor after it does a runtime thread spin (accept-None counter racing ahead by >10^6 in 200 ms); a teardown that does not return within 15 s while the process consumes no CPU is a deadlock (violation); a child that is merely slow is inconclusive, never a violation; non-trivial = the pre-emption point was actually hit; distinct by case"
    }
    fn strategy(&self, _t: Tier) -> BoxedStrategy<RaceCase> {
        (1u8..9, 0u8..7, prop::bool::weighted(0.7).prop_map(|m| if m { 0u8 } else { 1u8 }), 0u8..6, any::<u8>(), 0u8..3, any::<bool>())
            .prop_map(|(workers, scenario, site, occurrence, block_ms, teardown, keep_handles)| RaceCase { workers, scenario, site, occurrence, block_ms, teardown, keep_handles })
            .boxed()
    }
    fn run(&self, c: &RaceCase, obs: &mut Obs) -> Result<(), Fail> {
        let rep = run_child(c).map_err(Fail::Inconclusive)?;
        if rep.hit {
            obs.nontrivial(c);
            obs.label("pre-emption-hit");
        }
        obs.label(format!("scenario:{}", c.scenario % 7));
        if let Some((key, what)) = rep.panics.first() {
            return Err(Fail::Violation { key: key.clone(), msg: format!("{what} ({} panic(s) in the child; case {:?})", rep.panics.len(), c) });
        }
        if rep.spin {
            return Err(Fail::violation("c08:accept-none-hot-loop", format!("runtime teardown {}: a runtime thread spins in the connection manager's accept branch (accept() keeps yielding None; {} iterations counted); case {:?}", if rep.teardown_returned { "returned but left a spinning thread behind" } else { "never returned" }, rep.accept_none_total, c)));
        }
        if rep.stuck && rep.stuck_cpu_ms.map_or(false, |ms| ms < 100) {
            // not slow: idle. Every thread of the process is blocked and the teardown cannot make progress.
            return Err(Fail::violation("c08:teardown-deadlock", format!("runtime teardown did not return within 15 s and the process consumed only {} ms of CPU during the last 10 s: its threads are blocked for good (deadlock); case {:?}", rep.stuck_cpu_ms.unwrap_or(0), c)));
        }
        if rep.stuck {
            return Err(Fail::Inconclusive(format!("teardown did not return within 15 s without a spin signature; case {:?}", c)));
        }
        Ok(())
    }
}

pub fn run_racer(ctx: &mut Ctx, tier: Tier) {
    // children are processes with their own threads: a few at a time
    ctx.run_part_threads(Racer, tier.pick(120, 3_000), 8);
}
