//! C15 — message size limits are exact, symmetric and confined to the RPC.

use crate::core::*;
use crate::refmodel::wire as rw;
use crate::simnet::recorder::expected_response;
use crate::simnet::*;
use crate::{vensure, vfail};
use anemo::verif::wire as iw;
use bytes::Bytes;
use futures::FutureExt;
use proptest::prelude::*;
use serde::{Deserialize, Serialize};
use std::collections::HashMap;

// ---------------------------------------------------------------- codec level (in-process)

#[derive(Clone, Debug, Serialize, Deserialize, PartialEq, Eq, Hash)]
pub struct CodecCase {
    pub limit: u32,
    pub is_request: bool,
    /// which frame is steered to limit+delta: true = header, false = body
    pub steer_header: bool,
    pub other_len: u16,
}

fn cfg(limit: Option<usize>) -> anemo::Config {
    let mut c = anemo::Config::default();
    c.max_frame_size = limit;
    c
}

/// Builds a message whose header (or body) frame is exactly `target` bytes long.
fn sized_msg(is_request: bool, steer_header: bool, target: usize, other: usize) -> Option<(Vec<(String, String)>, usize)> {
    // header frame = route(8+2) + map count(8) + one entry (8+3 + 8+n)  [request, route "/s"]
    //              = status(2) + map count(8) + one entry (8+3 + 8+n)   [response]
    let fixed = if is_request { 8 + 2 + 8 + 8 + 3 + 8 } else { 2 + 8 + 8 + 3 + 8 };
    if steer_header {
        let n = target.checked_sub(fixed)?;
        Some((vec![("pad".to_string(), "x".repeat(n))], other))
    } else {
        Some((vec![("pad".to_string(), "y".to_string())], target))
    }
}

pub struct Codec;
impl Part for Codec {
    type Case = CodecCase;
    fn name(&self) -> &'static str { "codec" }
    fn rule(&self) -> &'static str {
        "codec level (hooks H4, in-memory streams): for a generated limit L in 64..2^20 and each delta in -3..=3 (enumerated) a request/response whose header or body frame is exactly L+delta bytes is written with limit L and read with limit L (and with no limit); oracle: accepted iff frame <= L on both the writing and the reading side, nothing written for a refused frame beyond the frames before it; non-trivial = every case (all sizes are within 3 bytes of the limit); distinct by (L, kind)"
    }
    fn strategy(&self, _t: Tier) -> BoxedStrategy<CodecCase> {
        (prop_oneof![64u32..4096, 4096u32..(1 << 20)], any::<bool>(), any::<bool>(), 0u16..2000)
            .prop_map(|(limit, is_request, steer_header, other_len)| CodecCase { limit, is_request, steer_header, other_len })
            .boxed()
    }
    fn run(&self, c: &CodecCase, obs: &mut Obs) -> Result<(), Fail> {
        let l = c.limit as usize;
        for delta in -3i64..=3 {
            let target = (l as i64 + delta) as usize;
            let Some((headers, body_len)) = sized_msg(c.is_request, c.steer_header, target, c.other_len as usize) else { continue };
            let body_len = if c.steer_header { body_len.min(l) } else { body_len };
            let hdr_len = if c.is_request { rw::request_header_bytes("/s", &headers).len() } else { rw::response_header_bytes(200, &headers).len() };
            if c.steer_header {
                assert_eq!(hdr_len, target, "harness: header sizing");
            }
            let fits = hdr_len <= l && body_len <= l;
            let body = Bytes::from(vec![7u8; body_len]);
            // --- writer with limit L
            let mut out = Vec::new();
            let wr = if c.is_request {
                let mut r = anemo::Request::new(body.clone()).with_route("/s");
                for (k, v) in &headers { r.headers_mut().insert(k.clone(), v.clone()); }
                iw::write_request(&cfg(Some(l)), &mut out, r).now_or_never()
            } else {
                let mut r = anemo::Response::new(body.clone());
                for (k, v) in &headers { r.headers_mut().insert(k.clone(), v.clone()); }
                iw::write_response(&cfg(Some(l)), &mut out, r).now_or_never()
            };
            let wr = match wr { Some(r) => r, None => vfail!("c15:writer-pending", "writer pending on an in-memory sink") };
            vensure!(wr.is_ok() == fits, "c15:sender-limit", "limit {l}: writing header frame {hdr_len} / body frame {body_len} -> ok={} (expected ok={fits}): {:?}", wr.is_ok(), wr.as_ref().err().map(|e| e.to_string()));
            if !fits {
                // the refused frame itself must not have been written
                let refused = if hdr_len > l { hdr_len } else { body_len };
                vensure!(out.len() < 8 + 4 + hdr_len + 4 + refused.min(body_len + 1) && out.len() <= 8 + 4 + hdr_len, "c15:sent-oversize", "limit {l}: {} bytes were written although frame of {refused} bytes was refused", out.len());
            }
            // --- reader with limit L, fed by an unlimited writer (reference encoder)
            let wire = if c.is_request {
                rw::encode_request(&rw::RefRequest { version: 1, route: "/s".into(), headers: headers.clone(), body: body.to_vec() })
            } else {
                rw::encode_response(&rw::RefResponse { version: 1, status: 200, headers: headers.clone(), body: body.to_vec() })
            };
            for (limit, expect_ok) in [(Some(l), fits), (Some(target.max(hdr_len).max(body_len)), true)] {
                let ok = if c.is_request {
                    match iw::read_request(&cfg(limit), &wire[..]).now_or_never() {
                        None => vfail!("c15:reader-pending", "reader pending"),
                        Some(Ok(r)) => { vensure!(r.body().len() == body_len, "c15:truncated", "body truncated to {}", r.body().len()); true }
                        Some(Err(_)) => false,
                    }
                } else {
                    match iw::read_response(&cfg(limit), &wire[..]).now_or_never() {
                        None => vfail!("c15:reader-pending", "reader pending"),
                        Some(Ok(r)) => { vensure!(r.body().len() == body_len, "c15:truncated", "body truncated to {}", r.body().len()); true }
                        Some(Err(_)) => false,
                    }
                };
                vensure!(ok == expect_ok, "c15:receiver-limit", "limit {:?}: reading header frame {hdr_len} / body frame {body_len} -> ok={ok} (expected {expect_ok})", limit);
            }
            obs.evals(1);
        }
        obs.nontrivial((c.limit, c.is_request, c.steer_header));
        Ok(())
    }
}

// ---------------------------------------------------------------- network level (simnet)

#[derive(Clone, Debug, Serialize, Deserialize, PartialEq, Eq, Hash)]
pub enum Which {
    ReqHeader,
    ReqBody,
    RespHeader,
    RespBody,
}

#[derive(Clone, Debug, Serialize, Deserialize, PartialEq, Eq, Hash)]
pub struct NetCase {
    pub limit: u32,
    /// limit configured at caller / at callee
    pub at_caller: bool,
    pub at_callee: bool,
    pub which: Which,
    /// sizes relative to the limit, one RPC each
    pub deltas: Vec<i32>,
    /// the whole list of sizes is probed this many times on the same connection (refusals must
    /// stay confined however many of them a connection has seen)
    #[serde(default)]
    pub rounds: u8,
    /// the caller's own outbound middleware adds a header of this many bytes to every request
    #[serde(default)]
    pub layer_header: Option<u16>,
    /// probes of other frames carry a request header padded to exactly this many bytes
    #[serde(default)]
    pub req_header_len: Option<u32>,
}

struct Sizes {
    req_hdr: usize,
    req_body: usize,
    resp_hdr: usize,
    resp_body: usize,
}

/// Builds the request for one probe and computes all four frame sizes from the reference codec.
fn build(which: &Which, target: usize, id: u64) -> Option<(anemo::Request<Bytes>, Sizes, HashMap<String, String>)> {
    build_with(which, target, id, None, None)
}

/// `layer_hdr`: a header the caller's outbound middleware adds on the way out (on the wire and seen by
/// the handler, but not part of the request handed to `rpc`); `req_hdr_len`: pad the request header
/// to exactly this many bytes when the probe is about another frame.
fn build_with(which: &Which, target: usize, id: u64, layer_hdr: Option<&(String, String)>, req_hdr_len: Option<usize>) -> Option<(anemo::Request<Bytes>, Sizes, HashMap<String, String>)> {
    let mut headers: Vec<(String, String)> = layer_hdr.cloned().into_iter().collect();
    let mut req_body = recorder::CTL_LEN;
    let mut resp_len = 10usize;
    let base_req_hdr = |h: &[(String, String)]| rw::request_header_bytes("/c15", h).len();
    match which {
        Which::ReqHeader => {
            let mut probe = headers.clone();
            probe.push(("pad".into(), String::new()));
            let base = base_req_hdr(&probe);
            let n = target.checked_sub(base)?;
            headers.push(("pad".into(), "x".repeat(n)));
        }
        Which::ReqBody => req_body = target.max(recorder::CTL_LEN),
        Which::RespBody => resp_len = target,
        Which::RespHeader => {}
    }
    if let (Some(want), false) = (req_hdr_len, matches!(which, Which::ReqHeader)) {
        let mut probe = headers.clone();
        probe.push(("hpad".into(), String::new()));
        if let Some(n) = want.checked_sub(base_req_hdr(&probe)) {
            headers.push(("hpad".into(), "h".repeat(n)));
        }
    }
    let ctl = Ctl { id, delay_ms: 0, status_idx: 0, resp_len: resp_len as u32, resp_hdrs: 0, mode: 0 };
    if let Which::RespHeader = which {
        // two-step: find the pad that makes the response header frame exactly `target`
        let mut pad = 0usize;
        for _ in 0..3 {
            let mut h = headers.clone();
            h.push(("x-resp-pad".into(), pad.to_string()));
            let hm: HashMap<String, String> = h.iter().cloned().collect();
            let exp = expected_response("/c15", &hm, &ctl.encode(req_body));
            let hv: Vec<(String, String)> = exp.headers.into_iter().collect();
            let len = rw::response_header_bytes(exp.status, &hv).len();
            if len == target { break; }
            pad = (pad + target).checked_sub(len)?;
        }
        headers.push(("x-resp-pad".into(), pad.to_string()));
    }
    let hm: HashMap<String, String> = headers.iter().cloned().collect();
    let body = ctl.encode(req_body);
    let exp = expected_response("/c15", &hm, &body);
    let hv: Vec<(String, String)> = exp.headers.iter().map(|(k, v)| (k.clone(), v.clone())).collect();
    let sizes = Sizes {
        req_hdr: base_req_hdr(&headers),
        req_body: body.len(),
        resp_hdr: rw::response_header_bytes(exp.status, &hv).len(),
        resp_body: exp.body.len(),
    };
    let got = match which { Which::ReqHeader => sizes.req_hdr, Which::ReqBody => sizes.req_body, Which::RespHeader => sizes.resp_hdr, Which::RespBody => sizes.resp_body };
    if got != target { return None; }
    let given: Vec<(String, String)> = headers.iter().filter(|h| Some(*h) != layer_hdr).cloned().collect();
    Some((ctl_request("/c15", &given, &ctl, req_body), sizes, hm))
}

pub fn check_net(case: &NetCase, obs: &mut Obs) -> Result<(), Fail> {
    let case = case.clone();
    run_sim(7, 2, |sim| async move {
        let lc = case.at_caller.then_some(case.limit as usize);
        let ls = case.at_callee.then_some(case.limit as usize);
        let mut sa = NodeSpec::new(0);
        sa.config.max_frame_size = lc;
        // (only when the small follow-up request still fits the limit with the added header)
        let layer_hdr: Option<(String, String)> = case.layer_header.filter(|n| case.limit as usize >= *n as usize + 200).map(|n| ("x-layer".to_string(), "L".repeat(n as usize)));
        if let Some(h) = &layer_hdr {
            sa.outbound_layer = Some(OutboundLayer { gate: None, add_header: Some(h.clone()) });
        }
        let mut sb = NodeSpec::new(1);
        sb.config.max_frame_size = ls;
        let a = sim.node_with(sa)?;
        let b = sim.node_with(sb)?;
        match within(20_000, a.net.connect(b.addr())).await {
            Ok(Ok(_)) => {}
            other => return Err(Fail::Inconclusive(format!("connect failed: {:?}", other.map(|r| r.map_err(|e| e.to_string()))))),
        }
        let fits = |n: usize, l: Option<usize>| l.map_or(true, |l| n <= l);
        let mut near = false;
        let rounds = case.rounds.max(1) as usize;
        let mut refusals_by_callee = 0u32;
        let probes: Vec<i32> = std::iter::repeat(case.deltas.iter().copied()).take(rounds).flatten().collect();
        for (i, d) in probes.iter().enumerate() {
            let target = (case.limit as i64 + *d as i64).max(0) as usize;
            let Some((req, sz, hm)) = build_with(&case.which, target, i as u64, layer_hdr.as_ref(), case.req_header_len.map(|n| n as usize)) else { obs.label("skipped:size-unreachable"); continue };
            let body = req.body().clone();
            let sent_before = sim.fabric.bytes_sent_from(a.addr());
            let t0 = sim.fabric.now_ms();
            let res = within(60_000, a.net.rpc(b.id(), req)).await;
            let took = sim.fabric.now_ms() - t0;
            let sent_by_caller = sim.fabric.bytes_sent_from(a.addr()) - sent_before;
            let res = match res { Ok(r) => r, Err(()) => vfail!("c15:hang", "rpc with {:?}={target} (limit {} caller={} callee={}) did not return within 60 virtual seconds", case.which, case.limit, case.at_caller, case.at_callee) };
            let sender_req_ok = fits(sz.req_hdr, lc) && fits(sz.req_body, lc);
            let expect_ok = sender_req_ok && fits(sz.req_hdr, ls) && fits(sz.req_body, ls) && fits(sz.resp_hdr, ls) && fits(sz.resp_body, ls) && fits(sz.resp_hdr, lc) && fits(sz.resp_body, lc);
            match &res {
                Ok(resp) => {
                    vensure!(expect_ok, "c15:oversize-delivered", "{:?}={target} with limit {} (caller={} callee={}): delivered although a frame exceeds the limit (req {}+{} resp {}+{})", case.which, case.limit, case.at_caller, case.at_callee, sz.req_hdr, sz.req_body, sz.resp_hdr, sz.resp_body);
                    let exp = expected_response("/c15", &hm, &body);
                    vensure!(resp.status().to_u16() == exp.status && resp.headers() == &exp.headers && resp.body() == &exp.body, "c15:not-intact", "{:?}={target}: delivered but not intact (body {} vs {})", case.which, resp.body().len(), exp.body.len());
                }
                Err(e) => {
                    vensure!(!expect_ok, "c15:refused-within-limit", "{:?}={target} with limit {} (caller={} callee={}): refused although every frame is within the limit (req {}+{} resp {}+{}): {e}", case.which, case.limit, case.at_caller, case.at_callee, sz.req_hdr, sz.req_body, sz.resp_hdr, sz.resp_body);
                }
            }
            if !sender_req_ok {
                // refused by the sender before transmission: immediate, and the frame never hits the wire
                vensure!(took <= 1, "c15:sender-not-immediate", "caller-side refusal took {took} ms of virtual time");
                let refused = if !fits(sz.req_hdr, lc) { sz.req_hdr } else { sz.req_body };
                if refused > 20_000 {
                    vensure!((sent_by_caller as usize) < refused / 2, "c15:sent-oversize", "caller put {sent_by_caller} bytes on the wire for a refused frame of {refused} bytes");
                }
                vensure!(b.rec.starts_of(i as u64).is_empty(), "c15:sent-oversize", "request refused by the sender still reached the handler");
            }
            if !(fits(sz.req_hdr, ls) && fits(sz.req_body, ls)) {
                vensure!(b.rec.starts_of(i as u64).is_empty(), "c15:receiver-limit", "request exceeding the receiver's limit reached the handler");
                if sender_req_ok { refusals_by_callee += 1; }
            }
            // confined to the RPC: the connection stays and a follow-up succeeds promptly
            vensure!(a.net.peers().contains(&b.id()), "c15:connection-torn-down", "after {:?}={target}: caller no longer lists the callee", case.which);
            let ctl = Ctl { id: 1_000_000 + i as u64, delay_ms: 0, status_idx: 0, resp_len: 5, resp_hdrs: 0, mode: 0 };
            match within(5_000, a.net.rpc(b.id(), ctl_request("/follow", &[], &ctl, 40))).await {
                Ok(Ok(r)) if r.status().to_u16() == 200 => {}
                other => vfail!("c15:follow-up-failed", "follow-up RPC after {:?}={target} failed: {:?}", case.which, other.map(|r| r.map(|x| x.status().to_u16()).map_err(|e| e.to_string()))),
            }
            if d.abs() <= 3 { near = true; }
            obs.label(if expect_ok { "probe:delivered" } else { "probe:refused" });
        }
        sim.health()?;
        check_no_panics("during frame-limit probes")?;
        obs.evals(probes.len() as u64);
        obs.label(format!("placement:caller={} callee={}", case.at_caller, case.at_callee));
        if refusals_by_callee >= 16 { obs.label("callee-refusals-on-one-connection>=16"); }
        if near { obs.nontrivial(&case); }
        Ok(())
    })
}

pub struct Net;
impl Part for Net {
    type Case = NetCase;
    fn name(&self) -> &'static str { "network" }
    fn rule(&self) -> &'static str {
        "two networks on the fabric, limit L in 64..2^20 placed at caller / callee / both / neither; for one of {request header, request body, response header, response body} the sizes L-3..L+3 (enumerated) plus random sizes, one RPC each, the list repeated 1-8 times on the same connection (up to 40 refusals); optionally the caller's own outbound middleware adds a header of 1-599 bytes (counted: the limit applies to what goes on the wire), and probes of other frames may carry a request header padded to a generated length (around powers of two: the header frame then ends exactly where a read buffer does); frame sizes computed by the reference codec; oracle: Ok and intact iff every frame <= every applicable limit, else Err for that RPC only (returns within bounded virtual time, sender-side refusal immediate and nothing of the frame on the wire, handler not reached when the request is refused), connection still listed and a follow-up RPC succeeds; non-trivial = case containing sizes within +-3 of the limit; distinct by case"
    }
    fn strategy(&self, _t: Tier) -> BoxedStrategy<NetCase> {
        let which = prop_oneof![Just(Which::ReqHeader), Just(Which::ReqBody), Just(Which::RespHeader), Just(Which::RespBody)];
        (prop_oneof![3 => 200u32..5000, 2 => 5000u32..200_000, 1 => 200_000u32..(1 << 20)], any::<bool>(), any::<bool>(), which, prop::collection::vec(-200_000i32..400_000, 0..3), prop_oneof![4 => Just(1u8), 1 => 2u8..9],
            prop::option::weighted(0.25, 1u16..600),
            prop_oneof![3 => Just(None), 2 => (prop::sample::select(vec![4096u32, 8192, 16384, 32768, 65536]), -16i32..9).prop_map(|(b, d)| Some((b as i32 + d) as u32)), 1 => (60u32..40_000).prop_map(Some)])
            .prop_map(|(limit, at_caller, at_callee, which, extra, rounds, layer_header, req_header_len)| {
                let mut deltas: Vec<i32> = (-3..=3).collect();
                deltas.extend(extra);
                NetCase { limit, at_caller, at_callee, which, deltas, rounds, layer_header, req_header_len }
            })
            .boxed()
    }
    fn run(&self, c: &NetCase, obs: &mut Obs) -> Result<(), Fail> { check_net(c, obs) }
}

// ---------------------------------------------------------------- default configuration: "no limit"

#[derive(Clone, Debug, Serialize, Deserialize, PartialEq, Eq, Hash)]
pub struct DefaultCase {
    pub which: Which,
    pub size: u32,
}

pub struct NoLimit;
impl Part for NoLimit {
    type Case = DefaultCase;
    fn name(&self) -> &'static str { "no-limit" }
    fn rule(&self) -> &'static str {
        "default configuration (no maximum configured) on both ends: sizes around 8 MiB (8 MiB-1, 8 MiB, 8 MiB+1) and 9-24 MiB for each of the four frames; oracle: every size is delivered intact ('no limit is imposed, as documented'); non-trivial = every case; distinct by (frame, size)"
    }
    fn fixed_cases(&self) -> Vec<DefaultCase> {
        let m = 8u32 << 20;
        vec![
            DefaultCase { which: Which::ReqBody, size: m - 1 },
            DefaultCase { which: Which::ReqBody, size: m },
            DefaultCase { which: Which::ReqBody, size: m + 1 },
            DefaultCase { which: Which::RespBody, size: m + 1 },
            DefaultCase { which: Which::ReqHeader, size: m + 1 },
            DefaultCase { which: Which::RespHeader, size: m + 1 },
        ]
    }
    fn strategy(&self, _t: Tier) -> BoxedStrategy<DefaultCase> {
        let which = prop_oneof![Just(Which::ReqHeader), Just(Which::ReqBody), Just(Which::RespHeader), Just(Which::RespBody)];
        (which, prop_oneof![(8u32 << 20) - 3..(8u32 << 20) + 4, (1u32 << 20)..(24u32 << 20)]).prop_map(|(which, size)| DefaultCase { which, size }).boxed()
    }
    fn run(&self, c: &DefaultCase, obs: &mut Obs) -> Result<(), Fail> {
        let c = c.clone();
        run_sim(9, 1, |sim| async move {
            let a = sim.node(0)?;
            let b = sim.node(1)?;
            match within(20_000, a.net.connect(b.addr())).await {
                Ok(Ok(_)) => {}
                _ => return Err(Fail::Inconclusive("connect failed".into())),
            }
            let Some((req, _sz, hm)) = build(&c.which, c.size as usize, 1) else { return Ok(()) };
            let body = req.body().clone();
            let res = within(600_000, a.net.rpc(b.id(), req)).await;
            match res {
                Err(()) => vfail!("c15:hang", "{:?} of {} bytes with no limit configured did not return", c.which, c.size),
                Ok(Err(e)) => {
                    // attribute to the known 8 MiB cap only if that is exactly what the default codec enforces
                    let cap = iw::frame_codec(&anemo::Config::default()).max_frame_length();
                    let over = c.size as usize > rw::DEFAULT_MAX_FRAME && cap == rw::DEFAULT_MAX_FRAME;
                    vfail!(if over { "c15:default-8MiB-cap" } else { "c15:no-limit-refused" }, "no maximum configured, yet a {:?} frame of {} bytes is refused: {e}", c.which, c.size);
                }
                Ok(Ok(resp)) => {
                    let exp = expected_response("/c15", &hm, &body);
                    vensure!(resp.status().to_u16() == exp.status && resp.headers() == &exp.headers && resp.body() == &exp.body, "c15:not-intact", "{:?}={}: delivered but not intact", c.which, c.size);
                }
            }
            sim.health()?;
            obs.nontrivial(&c);
            obs.label(if c.size as usize > rw::DEFAULT_MAX_FRAME { "size>8MiB" } else { "size<=8MiB" });
            Ok(())
        })
    }
}

// ---------------------------------------------------------------- limits smaller than any message

#[derive(Clone, Debug, Serialize, Deserialize, PartialEq, Eq, Hash)]
pub struct TinyCase {
    pub limit: u8,
    pub at_caller: bool,
    pub at_callee: bool,
}

pub struct TinyLimits;
impl Part for TinyLimits {
    type Case = TinyCase;
    fn name(&self) -> &'static str { "tiny-limits" }
    fn rule(&self) -> &'static str {
        "a configured maximum of 0-20 bytes (smaller than the header frame of any request or response; 0 is a legal value and is not 'unset') at the caller, the callee or both: every RPC is refused with an error for that RPC only - it returns at once or within bounded virtual time, the handler is never reached when the request is refused by the sender, and the connection stays listed; non-trivial = every case; distinct by case"
    }
    fn fixed_cases(&self) -> Vec<TinyCase> {
        vec![TinyCase { limit: 0, at_caller: true, at_callee: false }, TinyCase { limit: 0, at_caller: false, at_callee: true }, TinyCase { limit: 0, at_caller: true, at_callee: true }]
    }
    fn strategy(&self, _t: Tier) -> BoxedStrategy<TinyCase> {
        (0u8..21, any::<bool>(), any::<bool>()).prop_filter_map("limit somewhere", |(limit, at_caller, at_callee)| (at_caller || at_callee).then_some(TinyCase { limit, at_caller, at_callee })).boxed()
    }
    fn run(&self, c: &TinyCase, obs: &mut Obs) -> Result<(), Fail> {
        let c = c.clone();
        run_sim(8, 2, |sim| async move {
            let mut sa = NodeSpec::new(0);
            sa.config.max_frame_size = c.at_caller.then_some(c.limit as usize);
            let mut sb = NodeSpec::new(1);
            sb.config.max_frame_size = c.at_callee.then_some(c.limit as usize);
            let a = sim.node_with(sa)?;
            let b = sim.node_with(sb)?;
            match within(20_000, a.net.connect(b.addr())).await {
                Ok(Ok(_)) => {}
                _ => return Err(Fail::Inconclusive("connect failed".into())),
            }
            for i in 0..3u64 {
                let ctl = Ctl { id: i, delay_ms: 0, status_idx: 0, resp_len: 5, resp_hdrs: 0, mode: 0 };
                let t0 = sim.fabric.now_ms();
                match within(60_000, a.net.rpc(b.id(), ctl_request("/tiny", &[], &ctl, 40))).await {
                    Err(()) => vfail!("c15:hang", "rpc with a maximum of {} bytes (caller={} callee={}) did not return", c.limit, c.at_caller, c.at_callee),
                    Ok(Ok(r)) => vfail!("c15:oversize-delivered", "a maximum of {} bytes is configured (caller={} callee={}), every frame of every message exceeds it, yet the RPC was answered with status {}", c.limit, c.at_caller, c.at_callee, r.status().to_u16()),
                    Ok(Err(_)) => {}
                }
                if c.at_caller {
                    vensure!(sim.fabric.now_ms() - t0 <= 1, "c15:sender-not-immediate", "caller-side refusal took {} ms", sim.fabric.now_ms() - t0);
                    vensure!(b.rec.starts_of(i).is_empty(), "c15:sent-oversize", "request refused by the sender still reached the handler");
                }
                vensure!(a.net.peers().contains(&b.id()), "c15:connection-torn-down", "after a refused RPC the caller no longer lists the callee");
            }
            sim.health()?;
            check_no_panics("during tiny-limit probes")?;
            obs.evals(3);
            obs.nontrivial(&c);
            Ok(())
        })
    }
}

// ---------------------------------------------------------------- limits beyond 4 GiB

pub struct HugeLimits;
impl Part for HugeLimits {
    type Case = (u64, bool, bool);
    fn name(&self) -> &'static str { "huge-limits" }
    fn rule(&self) -> &'static str {
        "a configured maximum of 2^32 .. 2^44 bytes (legal on 64-bit targets; values around multiples of 2^32 included) at the caller, the callee or both: ordinary messages (a few hundred bytes to 100 KiB) are far below it and must be delivered intact; non-trivial = every case; distinct by case"
    }
    fn fixed_cases(&self) -> Vec<(u64, bool, bool)> {
        vec![(1 << 32, true, true), ((1 << 32) + 64, true, false), (1 << 33, false, true)]
    }
    fn strategy(&self, _t: Tier) -> BoxedStrategy<(u64, bool, bool)> {
        (prop_oneof![(1u64..4096).prop_map(|k| k << 32), (1u64..4096, 0u64..100_000).prop_map(|(k, d)| (k << 32) + d), (1u64 << 32)..(1u64 << 44)], any::<bool>(), any::<bool>())
            .prop_filter_map("limit somewhere", |(l, a, b)| (a || b).then_some((l, a, b))).boxed()
    }
    fn run(&self, c: &(u64, bool, bool), obs: &mut Obs) -> Result<(), Fail> {
        let (limit, at_caller, at_callee) = *c;
        run_sim(6, 2, |sim| async move {
            let mut sa = NodeSpec::new(0);
            sa.config.max_frame_size = at_caller.then_some(limit as usize);
            let mut sb = NodeSpec::new(1);
            sb.config.max_frame_size = at_callee.then_some(limit as usize);
            let a = sim.node_with(sa)?;
            let b = sim.node_with(sb)?;
            match within(20_000, a.net.connect(b.addr())).await {
                Ok(Ok(_)) => {}
                _ => return Err(Fail::Inconclusive("connect failed".into())),
            }
            for (i, (req_len, resp_len)) in [(60usize, 10u32), (3_000, 2_000), (100_000, 70_000)].into_iter().enumerate() {
                let ctl = Ctl { id: i as u64, delay_ms: 0, status_idx: 0, resp_len, resp_hdrs: 1, mode: 0 };
                let req = ctl_request("/huge", &[], &ctl, req_len);
                let body = req.body().clone();
                match within(60_000, a.net.rpc(b.id(), req)).await {
                    Ok(Ok(resp)) => {
                        let exp = expected_response("/huge", &HashMap::new(), &body);
                        vensure!(resp.status().to_u16() == exp.status && resp.headers() == &exp.headers && resp.body() == &exp.body, "c15:not-intact", "limit {limit}: delivered but not intact");
                    }
                    other => vfail!("c15:refused-within-limit", "a maximum of {limit} bytes is configured (caller={at_caller} callee={at_callee}); a request of {req_len} bytes with a response of {resp_len} bytes is far below it, yet: {:?}", other.map(|r| r.map(|x| x.status().to_u16()).map_err(|e| e.to_string()))),
                }
            }
            sim.health()?;
            obs.evals(3);
            obs.nontrivial(c);
            Ok(())
        })
    }
}

pub fn run(tier: Tier) -> i32 {
    let mut ctx = Ctx::new("C15", tier);
    ctx.assume("frame sizes are computed by the hand-written reference codec (refmodel::wire)");
    ctx.assume("virtual-time fabric; 'never a hang' is a virtual deadline of 60 s per RPC");
    ctx.run_part(Codec, tier.pick(5_000, 1_000_000));
    ctx.run_part(Net, tier.pick(1_500, 150_000));
    ctx.run_part(TinyLimits, tier.pick(40, 600));
    ctx.run_part(HugeLimits, tier.pick(60, 2_000));
    ctx.run_part(NoLimit, tier.pick(10, 150));
    ctx.finish()
}
