//! C07 — wire format: exact layout, lossless round trip, total decoder.

use crate::core::*;
use crate::refmodel::wire as rw;
use crate::{vensure, vfail};
use anemo::types::response::StatusCode;
use anemo::verif::wire as iw;
use anemo::{Config, Request, Response};
use bytes::{Bytes, BytesMut};
use futures::FutureExt;
use proptest::prelude::*;
use serde::{Deserialize, Serialize};
use std::collections::HashMap;

#[derive(Clone, Debug, Serialize, Deserialize, PartialEq, Eq, Hash)]
pub struct Msg {
    pub is_request: bool,
    pub route: String,
    pub status_idx: u8,
    pub headers: Vec<(String, String)>,
    pub body_len: u32,
    pub body_seed: u64,
    pub shuffle: u64,
    pub with_extension: bool,
    /// the decoder is also fed through a stream that delivers the bytes in pieces ending at
    /// these offsets (mod length); a 0 means byte by byte over the first 64 bytes
    #[serde(default)]
    pub cuts: Vec<u32>,
}

impl Msg {
    pub fn body(&self) -> Bytes {
        let mut b = BytesMut::with_capacity(self.body_len as usize);
        crate::simnet::recorder::fill(&mut b, self.body_seed, self.body_len as usize);
        b.freeze()
    }
    pub fn header_map(&self) -> HashMap<String, String> {
        self.headers.iter().cloned().collect()
    }
    pub fn status(&self) -> u16 {
        rw::STATUS_CODES[self.status_idx as usize % 8]
    }
    /// headers as the map semantics define them (later duplicate wins), sorted
    pub fn sorted_headers(&self) -> Vec<(String, String)> {
        let mut v: Vec<_> = self.header_map().into_iter().collect();
        v.sort();
        v
    }
    pub fn shuffled_headers(&self) -> Vec<(String, String)> {
        let mut v = self.sorted_headers();
        let mut x = self.shuffle | 1;
        for i in (1..v.len()).rev() {
            x ^= x << 13;
            x ^= x >> 7;
            x ^= x << 17;
            v.swap(i, (x % (i as u64 + 1)) as usize);
        }
        v
    }
    pub fn to_request(&self) -> Request<Bytes> {
        let mut r = Request::new(self.body()).with_route(self.route.clone());
        *r.headers_mut() = self.header_map();
        if self.with_extension {
            r = r.with_extension(0xC0FFEEu32);
        }
        r
    }
    pub fn to_response(&self) -> Response<Bytes> {
        let mut r = Response::new(self.body()).with_status(StatusCode::new(self.status()).unwrap());
        *r.headers_mut() = self.header_map();
        if self.with_extension {
            r = r.with_extension(0xC0FFEEu32);
        }
        r
    }
    pub fn ref_bytes(&self) -> Vec<u8> {
        if self.is_request {
            rw::encode_request(&rw::RefRequest {
                version: 1,
                route: self.route.clone(),
                headers: self.shuffled_headers(),
                body: self.body().to_vec(),
            })
        } else {
            rw::encode_response(&rw::RefResponse {
                version: 1,
                status: self.status(),
                headers: self.shuffled_headers(),
                body: self.body().to_vec(),
            })
        }
    }
}

pub fn text() -> BoxedStrategy<String> {
    prop_oneof![
        4 => "[a-z0-9/_.-]{0,12}",
        2 => "\\PC{0,16}",
        1 => Just(String::new()),
        1 => "[ -~]{100,300}",
        1 => any::<String>(),
    ]
    .boxed()
}

pub fn route() -> BoxedStrategy<String> {
    prop_oneof![
        4 => "/[a-z]{1,8}(/[a-z0-9]{1,8}){0,3}",
        2 => text(),
        1 => "[a-z/]{1500,2048}",
    ]
    .boxed()
}

pub fn msg(max_body: u32) -> BoxedStrategy<Msg> {
    let body_len = prop_oneof![
        2 => 0u32..64,
        2 => 64u32..4096.min(max_body.max(65)),
        1 => (4096u32.min(max_body))..=max_body,
        1 => Just(0u32),
        // now and then a body beyond 1 MiB (paths that treat large bodies differently), where the part allows it
        1 => if max_body >= 128 * 1024 { prop_oneof![5 => Just(0u32), 1 => 1_048_576u32..1_200_000].boxed() } else { Just(0u32).boxed() },
    ];
    (
        any::<bool>(),
        route(),
        0u8..8,
        prop::collection::vec((text(), text()), 0..16),
        body_len,
        any::<u64>(),
        any::<u64>(),
        any::<bool>(),
        prop_oneof![1 => Just(Vec::new()), 2 => prop::collection::vec(prop_oneof![2 => 0u32..20, 1 => 0u32..200_000], 1..5)],
    )
        .prop_map(
            |(is_request, route, status_idx, headers, body_len, body_seed, shuffle, with_extension, cuts)| Msg {
                is_request,
                route,
                status_idx,
                headers,
                body_len,
                body_seed,
                shuffle,
                with_extension,
                cuts,
            },
        )
        .boxed()
}

pub enum Decoded {
    Req(Request<Bytes>),
    Resp(Response<Bytes>),
}

/// Runs the implementation's decoder on an in-memory stream. `Err("pending")` if the future
/// did not complete (it must never wait on a finite in-memory stream).
pub fn impl_decode(cfg: &Config, is_request: bool, bytes: &[u8]) -> Result<Result<Decoded, String>, &'static str> {
    if is_request {
        match iw::read_request(cfg, bytes).now_or_never() {
            None => Err("pending"),
            Some(r) => Ok(r.map(Decoded::Req).map_err(|e| e.to_string())),
        }
    } else {
        match iw::read_response(cfg, bytes).now_or_never() {
            None => Err("pending"),
            Some(r) => Ok(r.map(Decoded::Resp).map_err(|e| e.to_string())),
        }
    }
}

/// An in-memory stream that hands its bytes out in pieces ending at the given offsets and is
/// not ready (once, waking itself) between two pieces, the way a network stream behaves.
pub struct Chunked<'a> {
    data: &'a [u8],
    pos: usize,
    cuts: Vec<usize>,
    pause: bool,
}
impl<'a> Chunked<'a> {
    pub fn new(data: &'a [u8], cuts: &[u32]) -> Self {
        let mut c: Vec<usize> = Vec::new();
        for x in cuts {
            if *x == 0 { c.extend(1..=64.min(data.len())); } else { c.push(*x as usize % (data.len() + 1)); }
        }
        c.sort_unstable();
        c.dedup();
        Chunked { data, pos: 0, cuts: c, pause: false }
    }
}
impl tokio::io::AsyncRead for Chunked<'_> {
    fn poll_read(mut self: std::pin::Pin<&mut Self>, cx: &mut std::task::Context<'_>, buf: &mut tokio::io::ReadBuf<'_>) -> std::task::Poll<std::io::Result<()>> {
        if self.pause {
            self.pause = false;
            cx.waker().wake_by_ref();
            return std::task::Poll::Pending;
        }
        let end = self.cuts.iter().copied().find(|c| *c > self.pos).unwrap_or(self.data.len());
        let n = (end - self.pos).min(buf.remaining());
        buf.put_slice(&self.data[self.pos..self.pos + n]);
        self.pos += n;
        if self.pos == end && end < self.data.len() { self.pause = true; }
        std::task::Poll::Ready(Ok(()))
    }
}

/// The implementation's decoder fed through [`Chunked`].
pub fn impl_decode_chunked(cfg: &Config, is_request: bool, bytes: &[u8], cuts: &[u32]) -> Result<Decoded, String> {
    let r = Chunked::new(bytes, cuts);
    if is_request {
        futures::executor::block_on(iw::read_request(cfg, r)).map(Decoded::Req).map_err(|e| e.to_string())
    } else {
        futures::executor::block_on(iw::read_response(cfg, r)).map(Decoded::Resp).map_err(|e| e.to_string())
    }
}

pub fn impl_encode(cfg: &Config, m: &Msg) -> Result<Vec<u8>, String> {
    let mut out = Vec::new();
    let r = if m.is_request {
        iw::write_request(cfg, &mut out, m.to_request()).now_or_never()
    } else {
        iw::write_response(cfg, &mut out, m.to_response()).now_or_never()
    };
    match r {
        None => Err("encoder pending on an in-memory sink".into()),
        Some(Err(e)) => Err(e.to_string()),
        Some(Ok(())) => Ok(out),
    }
}

fn sorted(h: &HashMap<String, String>) -> Vec<(String, String)> {
    let mut v: Vec<_> = h.iter().map(|(k, v)| (k.clone(), v.clone())).collect();
    v.sort();
    v
}

/// Compare what the implementation decoded with what the reference says the bytes contain.
pub fn same_as_ref_request(d: &Request<Bytes>, r: &rw::RefRequest) -> Result<(), String> {
    if d.route() != r.route {
        return Err(format!("route {:?} != {:?}", d.route(), r.route));
    }
    if sorted(d.headers()) != r.headers {
        return Err(format!("headers {:?} != {:?}", sorted(d.headers()), r.headers));
    }
    if d.body().as_ref() != r.body.as_slice() {
        return Err(format!("body differs (len {} vs {})", d.body().len(), r.body.len()));
    }
    if d.version().to_u16() != r.version {
        return Err("version differs".into());
    }
    if !d.extensions().is_empty() {
        return Err("decoded request carries extensions".into());
    }
    Ok(())
}

pub fn same_as_ref_response(d: &Response<Bytes>, r: &rw::RefResponse) -> Result<(), String> {
    if d.status().to_u16() != r.status {
        return Err(format!("status {} != {}", d.status().to_u16(), r.status));
    }
    if sorted(d.headers()) != r.headers {
        return Err(format!("headers {:?} != {:?}", sorted(d.headers()), r.headers));
    }
    if d.body().as_ref() != r.body.as_slice() {
        return Err(format!("body differs (len {} vs {})", d.body().len(), r.body.len()));
    }
    if d.version().to_u16() != r.version {
        return Err("version differs".into());
    }
    if !d.extensions().is_empty() {
        return Err("decoded response carries extensions".into());
    }
    Ok(())
}

fn effective_max(cfg: &Config) -> usize {
    cfg.max_frame_size.unwrap_or(rw::DEFAULT_MAX_FRAME)
}

/// The full differential oracle for one byte string offered to a decoder.
pub fn check_decode(cfg: &Config, is_request: bool, bytes: &[u8]) -> Result<&'static str, Fail> {
    let imp = match impl_decode(cfg, is_request, bytes) {
        Err(_) => vfail!("c07:decoder-pending", "decoder did not complete on a finite in-memory stream ({} bytes)", bytes.len()),
        Ok(r) => r,
    };
    if is_request {
        let r = rw::decode_request(bytes, effective_max(cfg));
        match (imp, r) {
            (Ok(Decoded::Req(d)), Ok((rr, _))) => {
                if let Err(e) = same_as_ref_request(&d, &rr) {
                    vfail!("c07:decode-differs", "request decoded differently from the reference: {e}");
                }
                Ok("accepted")
            }
            (Ok(_), Err(e)) => vfail!("c07:accepts-invalid", "implementation accepted a request the layout forbids: {e:?}"),
            (Err(e), Ok(_)) => vfail!("c07:rejects-valid", "implementation rejected a well-formed request: {e}"),
            (Err(_), Err(_)) => Ok("rejected"),
            (Ok(Decoded::Resp(_)), Ok(_)) => unreachable!(),
        }
    } else {
        let r = rw::decode_response(bytes, effective_max(cfg));
        match (imp, r) {
            (Ok(Decoded::Resp(d)), Ok((rr, _))) => {
                if let Err(e) = same_as_ref_response(&d, &rr) {
                    vfail!("c07:decode-differs", "response decoded differently from the reference: {e}");
                }
                Ok("accepted")
            }
            (Ok(_), Err(e)) => vfail!("c07:accepts-invalid", "implementation accepted a response the layout forbids: {e:?}"),
            (Err(e), Ok(_)) => vfail!("c07:rejects-valid", "implementation rejected a well-formed response: {e}"),
            (Err(_), Err(_)) => Ok("rejected"),
            (Ok(Decoded::Req(_)), Ok(_)) => unreachable!(),
        }
    }
}

pub fn check_roundtrip(m: &Msg, obs: &mut Obs) -> Result<(), Fail> {
    let cfg = Config::default();
    let bytes = match impl_encode(&cfg, m) {
        Ok(b) => b,
        Err(e) => vfail!("c07:encode-failed", "encoding a valid message failed: {e}"),
    };
    // (2a) layout: the reference decoder must read exactly the message back, consuming all bytes
    vensure!(bytes.len() >= 8 && bytes[..8] == rw::PREAMBLE_V1, "c07:layout", "preamble is {:02x?}", &bytes[..bytes.len().min(8)]);
    let body = m.body();
    let hdr_len = if m.is_request {
        rw::request_header_bytes(&m.route, &m.sorted_headers()).len()
    } else {
        rw::response_header_bytes(m.status(), &m.sorted_headers()).len()
    };
    vensure!(bytes.len() == 8 + 4 + hdr_len + 4 + body.len(), "c07:layout",
        "encoded length {} != 8+4+{}+4+{}", bytes.len(), hdr_len, body.len());
    if m.is_request {
        match rw::decode_request(&bytes, usize::MAX) {
            Ok((r, used)) => {
                vensure!(used == bytes.len(), "c07:layout", "trailing bytes after the body frame");
                vensure!(r.route == m.route && r.headers == m.sorted_headers() && r.body == body.as_ref(), "c07:layout",
                    "reference decoder reads a different request from the produced bytes: {:?}", (&r.route, &r.headers, r.body.len()));
            }
            Err(e) => vfail!("c07:layout", "produced bytes do not follow the layout: {e:?}"),
        }
    } else {
        match rw::decode_response(&bytes, usize::MAX) {
            Ok((r, used)) => {
                vensure!(used == bytes.len(), "c07:layout", "trailing bytes after the body frame");
                vensure!(r.status == m.status() && r.headers == m.sorted_headers() && r.body == body.as_ref(), "c07:layout",
                    "reference decoder reads a different response from the produced bytes: {:?}", (r.status, &r.headers, r.body.len()));
            }
            Err(e) => vfail!("c07:layout", "produced bytes do not follow the layout: {e:?}"),
        }
    }
    // (1) impl round trip, (2b) ref-encode (any header order) -> impl-decode
    for (what, b) in [("impl-encode", bytes), ("ref-encode", m.ref_bytes())] {
        match impl_decode(&cfg, m.is_request, &b) {
            Err(_) => vfail!("c07:decoder-pending", "decoder pending on {what} bytes"),
            Ok(Err(e)) => vfail!("c07:rejects-valid", "decoder rejected {what} bytes: {e}"),
            Ok(Ok(Decoded::Req(d))) => {
                let want = rw::RefRequest { version: 1, route: m.route.clone(), headers: m.sorted_headers(), body: body.to_vec() };
                if let Err(e) = same_as_ref_request(&d, &want) {
                    vfail!("c07:roundtrip", "{what} -> decode lost information: {e}");
                }
            }
            Ok(Ok(Decoded::Resp(d))) => {
                let want = rw::RefResponse { version: 1, status: m.status(), headers: m.sorted_headers(), body: body.to_vec() };
                if let Err(e) = same_as_ref_response(&d, &want) {
                    vfail!("c07:roundtrip", "{what} -> decode lost information: {e}");
                }
            }
        }
    }
    // (1b) the same bytes delivered in pieces decode to the same message
    if !m.cuts.is_empty() {
        let b = m.ref_bytes();
        match impl_decode_chunked(&cfg, m.is_request, &b, &m.cuts) {
            Err(e) => vfail!("c07:rejects-valid-when-fragmented", "a valid message delivered in pieces ending at offsets {:?} (mod {}) was rejected: {e}", m.cuts, b.len() + 1),
            Ok(Decoded::Req(d)) => {
                let want = rw::RefRequest { version: 1, route: m.route.clone(), headers: m.sorted_headers(), body: body.to_vec() };
                if let Err(e) = same_as_ref_request(&d, &want) { vfail!("c07:roundtrip", "fragmented delivery lost information: {e}"); }
            }
            Ok(Decoded::Resp(d)) => {
                let want = rw::RefResponse { version: 1, status: m.status(), headers: m.sorted_headers(), body: body.to_vec() };
                if let Err(e) = same_as_ref_response(&d, &want) { vfail!("c07:roundtrip", "fragmented delivery lost information: {e}"); }
            }
        }
        obs.label("delivered-in-pieces");
    }
    obs.label(if m.is_request { "request" } else { "response" });
    if !m.headers.is_empty() && m.body_len > 0 {
        obs.nontrivial(m);
    }
    if m.body_len > 65536 {
        obs.label("body>64KiB");
    }
    Ok(())
}

pub struct RoundTrip;
impl Part for RoundTrip {
    type Case = Msg;
    fn name(&self) -> &'static str { "roundtrip" }
    fn rule(&self) -> &'static str {
        "generated requests/responses (any String route, 0-16 headers of arbitrary unicode, body 0-128KiB and occasionally 1-1.2 MiB, extensions set): impl-encode->layout check by hand-written decoder->impl-decode, ref-encode with shuffled header order->impl-decode, and (2 of 3 cases) the same bytes delivered through a stream that hands them out in 2-5 generated pieces or byte by byte (cuts inside the preamble and the length prefixes included); non-trivial = >=1 header and non-empty body; distinct by full message"
    }
    fn strategy(&self, _t: Tier) -> BoxedStrategy<Msg> { msg(128 * 1024) }
    fn run(&self, m: &Msg, obs: &mut Obs) -> Result<(), Fail> { check_roundtrip(m, obs) }
}

pub struct Prefixes;
impl Part for Prefixes {
    type Case = Msg;
    fn name(&self) -> &'static str { "prefixes" }
    fn rule(&self) -> &'static str {
        "every strict prefix (enumerated) of a generated valid message must be rejected without pending; non-trivial = message with >=1 header and non-empty body"
    }
    fn strategy(&self, _t: Tier) -> BoxedStrategy<Msg> { msg(1500) }
    fn run(&self, m: &Msg, obs: &mut Obs) -> Result<(), Fail> {
        let cfg = Config::default();
        let bytes = m.ref_bytes();
        for cut in 0..bytes.len() {
            match impl_decode(&cfg, m.is_request, &bytes[..cut]) {
                Err(_) => vfail!("c07:decoder-pending", "decoder pending on a {cut}-byte prefix of a {}-byte message", bytes.len()),
                Ok(Ok(_)) => vfail!("c07:accepts-prefix", "strict prefix of {cut}/{} bytes was accepted", bytes.len()),
                Ok(Err(_)) => {}
            }
        }
        // and the whole message with trailing garbage is still that message
        check_decode(&cfg, m.is_request, &bytes)?;
        obs.evals(bytes.len() as u64);
        if !m.headers.is_empty() && m.body_len > 0 {
            obs.nontrivial(m);
        }
        Ok(())
    }
}

#[derive(Clone, Debug, Serialize, Deserialize, PartialEq, Eq, Hash)]
pub struct BytesCase {
    pub is_request: bool,
    #[serde(with = "crate::hexbytes")]
    pub bytes: Vec<u8>,
}

#[derive(Clone, Debug)]
enum Mutation {
    Flip(u16, u8),
    Truncate(u16),
    Insert(u16, Vec<u8>),
    SetU32(u8, u32),
    SetU64(u16, u64),
}

fn mutation() -> impl Strategy<Value = Mutation> {
    prop_oneof![
        4 => (any::<u16>(), 1u8..=255).prop_map(|(p, x)| Mutation::Flip(p, x)),
        2 => any::<u16>().prop_map(Mutation::Truncate),
        1 => (any::<u16>(), prop::collection::vec(any::<u8>(), 1..9)).prop_map(|(p, b)| Mutation::Insert(p, b)),
        2 => (0u8..2, prop_oneof![Just(0u32), Just(u32::MAX), Just(8 << 20), Just((8 << 20) + 1), any::<u32>(), 0u32..64])
            .prop_map(|(w, v)| Mutation::SetU32(w, v)),
        2 => (any::<u16>(), prop_oneof![Just(u64::MAX), Just(1u64 << 40), any::<u64>(), 0u64..40]).prop_map(|(p, v)| Mutation::SetU64(p, v)),
    ]
}

pub fn apply_mutations(mut b: Vec<u8>, muts: &[Mutation]) -> Vec<u8> {
    for m in muts {
        match m {
            Mutation::Flip(p, x) if !b.is_empty() => {
                let i = idx(*p, b.len());
                b[i] ^= x;
            }
            Mutation::Truncate(p) => {
                let i = idx(*p, b.len() + 1);
                b.truncate(i);
            }
            Mutation::Insert(p, ins) => {
                let i = idx(*p, b.len() + 1);
                b.splice(i..i, ins.iter().copied());
            }
            Mutation::SetU32(which, v) => {
                // overwrite the first or second frame length (when the layout still parses that far)
                let off = if *which == 0 {
                    Some(8)
                } else if b.len() >= 12 {
                    let n = u32::from_be_bytes(b[8..12].try_into().unwrap()) as usize;
                    Some(12usize.saturating_add(n))
                } else {
                    None
                };
                if let Some(off) = off {
                    if off.checked_add(4).map_or(false, |e| e <= b.len()) {
                        b[off..off + 4].copy_from_slice(&v.to_be_bytes());
                    }
                }
            }
            Mutation::SetU64(p, v) => {
                if b.len() >= 20 {
                    let i = 12 + idx(*p, b.len() - 19);
                    b[i..i + 8].copy_from_slice(&v.to_le_bytes());
                }
            }
            _ => {}
        }
    }
    b
}

pub fn bytes_case() -> BoxedStrategy<BytesCase> {
    prop_oneof![
        2 => (any::<bool>(), prop::collection::vec(any::<u8>(), 0..200))
            .prop_map(|(is_request, bytes)| BytesCase { is_request, bytes }),
        // valid preamble followed by random bytes
        2 => (any::<bool>(), prop::collection::vec(any::<u8>(), 0..200)).prop_map(|(is_request, tail)| {
            let mut bytes = rw::PREAMBLE_V1.to_vec();
            bytes.extend(tail);
            BytesCase { is_request, bytes }
        }),
        6 => (msg(600), prop::collection::vec(mutation(), 1..4), any::<bool>()).prop_map(|(m, muts, cross)| {
            // `cross`: offer a response to the request decoder and vice versa
            BytesCase { is_request: m.is_request ^ cross, bytes: apply_mutations(m.ref_bytes(), &muts) }
        }),
    ]
    .boxed()
}

pub struct ArbitraryBytes;
impl Part for ArbitraryBytes {
    type Case = BytesCase;
    fn name(&self) -> &'static str { "arbitrary-bytes" }
    fn rule(&self) -> &'static str {
        "random byte strings, valid preamble + random tail, and valid messages with 1-3 mutations (byte flips, truncation, insertion, frame-length and bincode-length overwrites, request<->response cross feeding) offered to both decoders; oracle: no panic, no pending, impl verdict and content == hand-written reference decoder; non-trivial = input passes the 8-byte preamble check; distinct by bytes"
    }
    fn strategy(&self, _t: Tier) -> BoxedStrategy<BytesCase> { bytes_case() }
    fn run(&self, c: &BytesCase, obs: &mut Obs) -> Result<(), Fail> {
        let cfg = Config::default();
        let verdict = check_decode(&cfg, c.is_request, &c.bytes)?;
        obs.label(verdict);
        if c.bytes.len() >= 8 && c.bytes[..8] == rw::PREAMBLE_V1 {
            obs.nontrivial(c);
        }
        Ok(())
    }
}

/// Completely enumerated finite sub-spaces: versions, status codes, preamble bytes, golden vectors.
pub fn enumerations(property: &'static str, known: &KnownFindings) -> PartReport {
    let mut rep = PartReport {
        name: "enumerations".into(),
        rule: "exhaustive: all 65536 version values in the preamble, all 65536 status codes, every value of every preamble byte, against both decoders; literal golden vectors both ways; non-trivial = every enumerated value".into(),
        exhaustive: true,
        ..Default::default()
    };
    let cfg = Config::default();
    let fail = |rep: &mut PartReport, key: &str, msg: String, case: serde_json::Value| {
        if known.open_for(property, key).is_some() {
            rep.known.insert((key.to_string(), msg));
            rep.known_hits += 1;
        } else if rep.violation.is_none() {
            rep.violation = Some(Violation { part: "enumerations".into(), key: key.into(), msg, case });
        }
    };
    let base = Msg { is_request: true, route: "/a".into(), status_idx: 0, headers: vec![("k".into(), "v".into())], body_len: 3, body_seed: 1, shuffle: 0, with_extension: false, cuts: vec![] };
    // versions
    for v in 0..=u16::MAX {
        for is_request in [true, false] {
            let mut m = base.clone();
            m.is_request = is_request;
            let mut b = m.ref_bytes();
            b[5..7].copy_from_slice(&v.to_be_bytes());
            rep.evaluations += 1;
            rep.nontrivial.insert(fingerprint(&("ver", v, is_request)));
            let ok = matches!(impl_decode(&cfg, is_request, &b), Ok(Ok(_)));
            if ok != (v == 1) {
                fail(&mut rep, "c07:version", format!("version {v} accepted={ok} (request={is_request})"), serde_json::json!({"version": v, "is_request": is_request}));
            }
        }
        // the bare preamble reader
        let p = rw::preamble(v);
        let r = iw::read_version_frame(&mut &p[..]).now_or_never();
        let ok = matches!(r, Some(Ok(1)));
        if ok != (v == 1) {
            fail(&mut rep, "c07:version", format!("preamble reader: version {v} accepted={ok}"), serde_json::json!({"version": v}));
        }
    }
    // status codes
    for s in 0..=u16::MAX {
        let b = rw::encode_response(&rw::RefResponse { version: 1, status: s, headers: vec![], body: vec![1, 2] });
        rep.evaluations += 1;
        rep.nontrivial.insert(fingerprint(&("status", s)));
        let r = impl_decode(&cfg, false, &b);
        let valid = rw::STATUS_CODES.contains(&s);
        match r {
            Ok(Ok(Decoded::Resp(d))) if valid && d.status().to_u16() == s => {}
            Ok(Err(_)) if !valid => {}
            other => fail(&mut rep, "c07:status", format!("status {s}: valid={valid}, decoder said {:?}", other.map(|r| r.map(|_| "Ok").map_err(|e| e))), serde_json::json!({"status": s})),
        }
    }
    // every preamble byte
    for pos in 0..8 {
        for val in 0..=255u8 {
            let mut b = base.ref_bytes();
            let orig = b[pos];
            b[pos] = val;
            rep.evaluations += 1;
            rep.nontrivial.insert(fingerprint(&("pre", pos, val)));
            let ok = matches!(impl_decode(&cfg, true, &b), Ok(Ok(_)));
            if ok != (val == orig) {
                fail(&mut rep, "c07:preamble", format!("preamble byte {pos}={val:#x} accepted={ok}"), serde_json::json!({"pos": pos, "val": val}));
            }
        }
    }
    // golden vectors
    let gr = hex::decode(rw::GOLDEN_REQUEST).unwrap();
    let gm = Msg { is_request: true, route: "/ab".into(), status_idx: 0, headers: vec![("k".into(), "vv".into())], body_len: 0, body_seed: 0, shuffle: 0, with_extension: false, cuts: vec![] };
    {
        let mut req = gm.to_request();
        *req.body_mut() = Bytes::from_static(&[1, 2, 3]);
        let mut out = Vec::new();
        let _ = iw::write_request(&cfg, &mut out, req).now_or_never();
        rep.evaluations += 1;
        if out != gr {
            fail(&mut rep, "c07:golden", format!("request golden vector: produced {}", hex::encode(&out)), serde_json::json!({"golden": "request"}));
        }
        match impl_decode(&cfg, true, &gr) {
            Ok(Ok(Decoded::Req(d))) if d.route() == "/ab" && d.headers().get("k").map(|s| s.as_str()) == Some("vv") && d.body().as_ref() == [1, 2, 3] => {}
            _ => fail(&mut rep, "c07:golden", "request golden vector not decoded as written".into(), serde_json::json!({"golden": "request-decode"})),
        }
    }
    {
        let gresp = hex::decode(rw::GOLDEN_RESPONSE).unwrap();
        let resp = Response::new(Bytes::new()).with_status(StatusCode::NotFound);
        let mut out = Vec::new();
        let _ = iw::write_response(&cfg, &mut out, resp).now_or_never();
        rep.evaluations += 1;
        if out != gresp {
            fail(&mut rep, "c07:golden", format!("response golden vector: produced {}", hex::encode(&out)), serde_json::json!({"golden": "response"}));
        }
        match impl_decode(&cfg, false, &gresp) {
            Ok(Ok(Decoded::Resp(d))) if d.status() == StatusCode::NotFound && d.headers().is_empty() && d.body().is_empty() => {}
            _ => fail(&mut rep, "c07:golden", "response golden vector not decoded as written".into(), serde_json::json!({"golden": "response-decode"})),
        }
        // the acknowledgement preamble writer
        let mut out = Vec::new();
        let _ = iw::write_version_frame(&mut out).now_or_never();
        if out != rw::PREAMBLE_V1 {
            fail(&mut rep, "c07:golden", format!("preamble writer produced {}", hex::encode(&out)), serde_json::json!({"golden": "preamble"}));
        }
    }
    rep.samples.push(serde_json::json!({"golden_request": rw::GOLDEN_REQUEST, "golden_response": rw::GOLDEN_RESPONSE, "versions": "0..=65535", "status_codes": "0..=65535", "preamble_bytes": "8x256"}));
    rep
}

// ---------------------------------------------------------------- encoding after a write that failed or was abandoned

#[derive(Clone, Debug, Serialize, Deserialize, PartialEq, Eq, Hash)]
pub enum Sink {
    /// accepts everything
    Whole,
    /// accepts this many bytes (scaled to the message), then fails
    FailsAfter(u16),
    /// accepts this many bytes, then is not ready; the write is abandoned (its future dropped)
    StallsAfter(u16),
}

#[derive(Clone, Debug, Serialize, Deserialize, PartialEq, Eq, Hash)]
pub struct SeqCase {
    pub writes: Vec<(Msg, Sink)>,
}

struct LimitedSink {
    out: Vec<u8>,
    budget: Option<usize>,
    fail: bool,
}
impl tokio::io::AsyncWrite for LimitedSink {
    fn poll_write(mut self: std::pin::Pin<&mut Self>, _cx: &mut std::task::Context<'_>, buf: &[u8]) -> std::task::Poll<std::io::Result<usize>> {
        match self.budget {
            None => { self.out.extend_from_slice(buf); std::task::Poll::Ready(Ok(buf.len())) }
            Some(0) if self.fail => std::task::Poll::Ready(Err(std::io::Error::new(std::io::ErrorKind::BrokenPipe, "sink closed"))),
            Some(0) => std::task::Poll::Pending,
            Some(b) => { let n = b.min(buf.len()); self.out.extend_from_slice(&buf[..n]); self.budget = Some(b - n); std::task::Poll::Ready(Ok(n)) }
        }
    }
    fn poll_flush(self: std::pin::Pin<&mut Self>, _cx: &mut std::task::Context<'_>) -> std::task::Poll<std::io::Result<()>> { std::task::Poll::Ready(Ok(())) }
    fn poll_shutdown(self: std::pin::Pin<&mut Self>, _cx: &mut std::task::Context<'_>) -> std::task::Poll<std::io::Result<()>> { std::task::Poll::Ready(Ok(())) }
}

pub struct EncodeSequences;
impl Part for EncodeSequences {
    type Case = SeqCase;
    fn name(&self) -> &'static str { "encode-sequences" }
    fn rule(&self) -> &'static str {
        "2-8 messages encoded one after the other on the same thread, each into its own stream that accepts everything, fails after a generated number of bytes, or stalls (the write is then abandoned); oracle: every write that completes has produced exactly the reference encoding of ITS message (nothing of an earlier, failed or abandoned message), and a failed write has emitted a prefix of it; non-trivial = a complete write that follows a failed or abandoned one; distinct by case"
    }
    fn strategy(&self, _t: Tier) -> BoxedStrategy<SeqCase> {
        let sink = prop_oneof![3 => Just(Sink::Whole), 2 => any::<u16>().prop_map(Sink::FailsAfter), 2 => any::<u16>().prop_map(Sink::StallsAfter)];
        prop::collection::vec((msg(4096).prop_map(|mut m| { m.headers.truncate(1); m.cuts.clear(); m }), sink), 2..9).prop_map(|writes| SeqCase { writes }).boxed()
    }
    fn run(&self, c: &SeqCase, obs: &mut Obs) -> Result<(), Fail> {
        let cfg = Config::default();
        let mut after_bad = false;
        let mut interesting = false;
        for (i, (m, sink)) in c.writes.iter().enumerate() {
            let want = m.ref_bytes(); // at most one header: the byte string is unique
            let budget = match sink { Sink::Whole => None, Sink::FailsAfter(k) | Sink::StallsAfter(k) => Some(idx(*k, want.len().max(1))) };
            let mut s = LimitedSink { out: Vec::new(), budget, fail: matches!(sink, Sink::FailsAfter(_)) };
            let r = if m.is_request { iw::write_request(&cfg, &mut s, m.to_request()).now_or_never() } else { iw::write_response(&cfg, &mut s, m.to_response()).now_or_never() };
            match r {
                Some(Ok(())) => {
                    vensure!(s.out == want, "c07:layout", "message {i} of the sequence (after {} earlier writes, the previous one {}) was encoded as {} bytes that are not its reference encoding ({} bytes); first difference at offset {:?}", i, if after_bad { "failed or abandoned" } else { "complete" }, s.out.len(), want.len(), s.out.iter().zip(want.iter()).position(|(a, b)| a != b));
                    if after_bad { interesting = true; }
                    after_bad = false;
                }
                Some(Err(_)) | None => {
                    vensure!(want.starts_with(&s.out), "c07:layout", "message {i}: the bytes emitted before the write failed/stalled are not a prefix of its encoding");
                    after_bad = true;
                }
            }
        }
        obs.evals(c.writes.len() as u64);
        if interesting { obs.nontrivial(c); obs.label("complete-write-after-a-failed-or-abandoned-one"); }
        Ok(())
    }
}

pub fn run(tier: Tier) -> i32 {
    let mut ctx = Ctx::new("C07", tier);
    ctx.assume("in-memory AsyncRead/AsyncWrite stand in for QUIC streams (the codecs are generic over them)");
    ctx.assume("the hand-written reference encoder/decoder in refmodel::wire is the layout authority");
    let rep = enumerations("C07", &ctx.known);
    ctx.push_report(rep);
    ctx.run_part(Prefixes, tier.pick(300, 6_000));
    ctx.run_part(RoundTrip, tier.pick(20_000, 400_000));
    ctx.run_part(EncodeSequences, tier.pick(10_000, 200_000));
    ctx.run_part(ArbitraryBytes, tier.pick(60_000, 2_000_000));
    if tier == Tier::Thorough {
        crate::fuzzrun::campaign(&mut ctx, "wire_request", 600_000);
        crate::fuzzrun::campaign(&mut ctx, "wire_response", 600_000);
    }
    ctx.finish()
}
