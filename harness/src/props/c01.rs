//! C01 — peer identity is cryptographically authenticated.

use crate::core::*;
use crate::refmodel::x509ref;
use crate::simnet::adversary::{self as adv, Presented, SignerKind, Validity};
use crate::simnet::*;
use crate::{vensure, vfail};
use anemo::verif::crypto as ic;
use anemo::PeerId;
use proptest::prelude::*;
use serde::{Deserialize, Serialize};
use std::sync::{Arc, Mutex};
use std::time::{SystemTime, UNIX_EPOCH};

fn now_secs() -> u64 {
    SystemTime::now().duration_since(UNIX_EPOCH).unwrap().as_secs()
}

const NAME: &str = "simnet";

// ============================================================ (a) verifier level

#[derive(Clone, Debug, Serialize, Deserialize, PartialEq, Eq, Hash)]
pub enum CertKind {
    SelfSigned,
    /// subject key = victim, signed by the adversary (rcgen signed_by)
    SignedByOther,
    /// adversary's certificate with the victim's key spliced in and re-signed by the adversary
    SplicedResigned,
    Ecdsa,
    /// validly self-signed by the adversary, with the victim's key encoded inside the common name
    KeyShapedName,
    Expired,
    NotYetValid,
    WrongName,
    ExtraName,
    Truncated(u16),
    Extended(u8),
    /// valid certificate with one byte replaced
    ByteSet(u16, u8),
    /// valid certificate with the byte at this absolute offset replaced (replay of the exhaustive part)
    ByteAt(usize, u8),
}

#[derive(Clone, Debug, Serialize, Deserialize, PartialEq, Eq, Hash)]
pub struct VerifierCase {
    pub victim_key: u64,
    pub adversary_key: u64,
    pub kind: CertKind,
    /// which verifier: 0 client, 1 server, 2 expected-server (expecting the victim)
    pub verifier: u8,
    /// also offer intermediates (another certificate) alongside
    pub with_intermediate: bool,
}

fn build_cert(c: &VerifierCase) -> Vec<u8> {
    let v = key_seed(1000 + c.victim_key);
    let a = key_seed(2000 + c.adversary_key);
    let names = vec![NAME.to_string()];
    match &c.kind {
        CertKind::SelfSigned => adv::self_signed(&v, &names, Validity::Valid),
        CertKind::SignedByOther => adv::signed_by_other(&v, &a, &names),
        CertKind::SplicedResigned => adv::spki_spliced_resigned(&adv::ed_public(&v), &a, &names),
        CertKind::Ecdsa => adv::ecdsa_self_signed(&names).0,
        CertKind::KeyShapedName => adv::key_shaped_name(&adv::ed_public(&v), &a, &names),
        CertKind::Expired => adv::self_signed(&v, &names, Validity::Expired),
        CertKind::NotYetValid => adv::self_signed(&v, &names, Validity::NotYetValid),
        CertKind::WrongName => adv::self_signed(&v, &["othernet".to_string()], Validity::Valid),
        CertKind::ExtraName => adv::self_signed(&v, &["othernet".to_string(), NAME.to_string()], Validity::Valid),
        CertKind::Truncated(n) => {
            let mut d = adv::self_signed(&v, &names, Validity::Valid);
            let keep = idx(*n, d.len());
            d.truncate(keep);
            d
        }
        CertKind::Extended(b) => {
            let mut d = adv::self_signed(&v, &names, Validity::Valid);
            d.push(*b);
            d
        }
        CertKind::ByteSet(pos, val) => {
            let mut d = adv::self_signed(&v, &names, Validity::Valid);
            let i = idx(*pos, d.len());
            d[i] = *val;
            d
        }
        CertKind::ByteAt(off, val) => {
            let mut d = adv::self_signed(&v, &names, Validity::Valid);
            if *off < d.len() {
                d[*off] = *val;
            }
            d
        }
    }
}

/// One certificate offered to one verifier implementation: the security oracle.
fn check_cert(der: &[u8], verifier: u8, expected: PeerId, intermediates: &[Vec<u8>], what: &dyn Fn() -> String) -> Result<bool, Fail> {
    let names = vec![NAME.to_string()];
    let now = now_secs();
    let imp = match verifier % 3 {
        0 => ic::verify_client_cert(&names, der, intermediates, now),
        1 => ic::verify_server_cert(&names, None, der, intermediates, NAME, now),
        _ => ic::verify_server_cert(&names, Some(expected), der, intermediates, NAME, now),
    };
    let reference = x509ref::accept(der, &names, now);
    if imp.is_ok() {
        let key = match &reference {
            Ok(k) => *k,
            Err(r) => vfail!("c01:verifier-accepts-invalid", "{}: verifier {} accepted a certificate the reference rejects ({:?})", what(), verifier % 3, r),
        };
        // the identity attributed must be the key under which the self-signature verifies
        match ic::peer_id_from_certificate(der) {
            Ok(p) => vensure!(p.0 == key, "c01:peer-id-not-spki", "{}: accepted certificate is attributed to {} but proves key {}", what(), p, hex::encode(key)),
            Err(e) => vfail!("c01:peer-id-not-spki", "{}: accepted certificate has no extractable peer id: {e}", what()),
        }
        if verifier % 3 == 2 {
            vensure!(key == expected.0, "c01:pin-ignored", "{}: verifier pinned to {} accepted a certificate proving {}", what(), expected, hex::encode(key));
        }
        // the same certificate offered again outside its validity period (one day after notAfter,
        // one day before notBefore): having been accepted once must not carry over
        if let Ok((_, cert)) = x509_parser::parse_x509_certificate(der) {
            let (nb, na) = (cert.validity().not_before.timestamp(), cert.validity().not_after.timestamp());
            for t in [na.saturating_add(86_400), nb.saturating_sub(86_400)] {
                if t <= 0 || (t >= nb && t <= na) { continue; }
                let t = t as u64;
                let again = match verifier % 3 {
                    0 => ic::verify_client_cert(&names, der, intermediates, t),
                    1 => ic::verify_server_cert(&names, None, der, intermediates, NAME, t),
                    _ => ic::verify_server_cert(&names, Some(expected), der, intermediates, NAME, t),
                };
                vensure!(again.is_err(), "c01:verifier-accepts-invalid", "{}: verifier {} accepted the certificate at unix time {t}, outside its validity period [{nb}, {na}] (it had accepted it inside the period just before)", what(), verifier % 3);
            }
        }
    }
    Ok(imp.is_ok())
}

pub fn verifier_case(c: &VerifierCase, obs: &mut Obs) -> Result<(), Fail> {
    let der = build_cert(c);
    let victim = peer_id_of_seed(&key_seed(1000 + c.victim_key));
    let inter = if c.with_intermediate {
        vec![adv::self_signed(&key_seed(2000 + c.adversary_key), &[NAME.to_string()], Validity::Valid)]
    } else {
        vec![]
    };
    let accepted = check_cert(&der, c.verifier, victim, &inter, &|| format!("{:?}", c.kind))?;
    // completeness: what anemo itself would generate must be accepted
    if matches!(c.kind, CertKind::SelfSigned | CertKind::ExtraName) && !c.with_intermediate {
        vensure!(accepted, "c01:rejects-valid", "a valid self-signed Ed25519 certificate for the network name was rejected by verifier {}", c.verifier % 3);
    }
    obs.label(format!("{}:{}", match &c.kind { CertKind::ByteSet(..) | CertKind::ByteAt(..) => "ByteSet".to_string(), CertKind::Truncated(_) => "Truncated".into(), CertKind::Extended(_) => "Extended".into(), k => format!("{k:?}") }, if accepted { "accepted" } else { "rejected" }));
    if !matches!(c.kind, CertKind::SelfSigned) {
        obs.nontrivial(c);
    }
    Ok(())
}

/// Fuzz entry: any byte string offered as a certificate to all three verifiers.
pub fn fuzz_cert(der: &[u8]) -> Result<(), Fail> {
    let pinned = peer_id_of_seed(&key_seed(1000));
    for verifier in 0..3u8 {
        check_cert(der, verifier, pinned, &[], &|| format!("fuzzed certificate of {} bytes", der.len()))?;
    }
    Ok(())
}

pub fn fuzz_cert_seeds() -> Vec<Vec<u8>> {
    let names = vec![NAME.to_string()];
    let v = key_seed(1000);
    let a = key_seed(2000);
    vec![
        adv::self_signed(&v, &names, Validity::Valid),
        adv::self_signed(&a, &names, Validity::Valid),
        adv::signed_by_other(&v, &a, &names),
        adv::spki_spliced_resigned(&adv::ed_public(&v), &a, &names),
        adv::ecdsa_self_signed(&names).0,
        adv::self_signed(&v, &names, Validity::Expired),
        adv::self_signed(&v, &["othernet".to_string()], Validity::Valid),
    ]
}

pub struct Verifiers;
impl Part for Verifiers {
    type Case = VerifierCase;
    fn name(&self) -> &'static str { "verifier" }
    fn rule(&self) -> &'static str {
        "the three certificate verifiers (hooks H5) offered generated certificates: valid self-signed, victim's key signed by another key (rcgen signed_by and DER splice + re-sign), ECDSA, expired / not yet valid, wrong / extra SAN, truncated, extended, single byte replaced, with or without an extra intermediate; oracle (one-directional): accepts => x509-parser+ring reference accepts and the attributed PeerId is the key under which the self-signature verifies (and equals the pin); generated-valid => accepted; non-trivial = every kind except the plain valid certificate; distinct by case"
    }
    fn strategy(&self, _t: Tier) -> BoxedStrategy<VerifierCase> {
        let kind = prop_oneof![
            1 => Just(CertKind::SelfSigned),
            2 => Just(CertKind::SignedByOther),
            2 => Just(CertKind::SplicedResigned),
            1 => Just(CertKind::Ecdsa),
            2 => Just(CertKind::KeyShapedName),
            1 => Just(CertKind::Expired),
            1 => Just(CertKind::NotYetValid),
            1 => Just(CertKind::WrongName),
            1 => Just(CertKind::ExtraName),
            1 => any::<u16>().prop_map(CertKind::Truncated),
            1 => any::<u8>().prop_map(CertKind::Extended),
            6 => (any::<u16>(), any::<u8>()).prop_map(|(p, v)| CertKind::ByteSet(p, v)),
        ];
        (0u64..4, 0u64..4, kind, 0u8..3, prop::bool::weighted(0.2))
            .prop_map(|(victim_key, adversary_key, kind, verifier, with_intermediate)| VerifierCase { victim_key, adversary_key, kind, verifier, with_intermediate })
            .boxed()
    }
    fn run(&self, c: &VerifierCase, obs: &mut Obs) -> Result<(), Fail> { verifier_case(c, obs) }
}

/// Exhaustive: every single-byte substitution of valid certificates, against all three verifiers.
pub fn exhaustive_mutations(known: &KnownFindings, n_certs: u64) -> PartReport {
    let threads = crate::core::threads() as u64;
    let parts: Vec<PartReport> = std::thread::scope(|s| {
        let hs: Vec<_> = (0..threads).map(|t| s.spawn(move || exhaustive_mutations_stripe(known, n_certs, t, threads))).collect();
        hs.into_iter().map(|h| h.join().expect("stripe")).collect()
    });
    let mut rep = parts.into_iter().reduce(|mut a, b| {
        a.evaluations += b.evaluations;
        a.nontrivial.extend(b.nontrivial);
        for (k, v) in b.labels { *a.labels.entry(k).or_insert(0) += v; }
        a.known.extend(b.known);
        a.known_hits += b.known_hits;
        if a.violation.is_none() { a.violation = b.violation; }
        if a.inconclusive.is_none() { a.inconclusive = b.inconclusive; }
        if a.samples.is_empty() { a.samples = b.samples; }
        a
    }).unwrap();
    rep.samples.truncate(2);
    rep
}

fn exhaustive_mutations_stripe(known: &KnownFindings, n_certs: u64, stripe: u64, stripes: u64) -> PartReport {
    let mut rep = PartReport {
        name: "single-byte-mutations".into(),
        rule: "exhaustive: every offset x every one of the 255 other byte values of valid self-signed certificates (one per key), offered to all three verifiers; oracle as in [verifier]; non-trivial = every mutation; distinct by (certificate, offset, value)".into(),
        exhaustive: true,
        ..Default::default()
    };
    let names = vec![NAME.to_string()];
    let mut accepted_mutants = 0u64;
    'outer: for k in 0..n_certs {
        let seed = key_seed(1000 + k);
        let victim = peer_id_of_seed(&seed);
        let base = adv::self_signed(&seed, &names, Validity::Valid);
        for off in (0..base.len()).filter(|o| *o as u64 % stripes == stripe) {
            for val in 0..=255u8 {
                if val == base[off] {
                    continue;
                }
                let mut d = base.clone();
                d[off] = val;
                for verifier in 0..3u8 {
                    rep.evaluations += 1;
                    match check_cert(&d, verifier, victim, &[], &|| format!("cert {k} byte {off} := {val:#04x}")) {
                        Ok(acc) => {
                            if acc {
                                accepted_mutants += 1;
                            }
                        }
                        Err(Fail::Violation { key, msg }) => {
                            if known.open_for("C01", &key).is_some() {
                                rep.known.insert((key, msg));
                                rep.known_hits += 1;
                            } else {
                                rep.violation = Some(Violation { part: rep.name.clone(), key, msg, case: serde_json::json!({"cert_key": k, "offset": off, "value": val, "verifier": verifier}) });
                                break 'outer;
                            }
                        }
                        Err(Fail::Inconclusive(m)) => {
                            rep.inconclusive = Some(m);
                            break 'outer;
                        }
                    }
                }
                rep.nontrivial.insert(fingerprint(&(k, off, val)));
            }
        }
        rep.samples.push(serde_json::json!({"certificate_hex": hex::encode(&base), "offsets": base.len(), "values_per_offset": 255}));
    }
    rep.labels.insert("mutants-still-accepted(harmless: same key, same name)".into(), accepted_mutants);
    rep
}

// ---- handshake signatures

#[derive(Clone, Debug, Serialize, Deserialize, PartialEq, Eq, Hash)]
pub struct SigCase {
    pub cert_key: u64,
    pub signing_key: u64,
    #[serde(with = "crate::hexbytes")]
    pub message: Vec<u8>,
    /// 0x0807 = ED25519
    pub scheme: u16,
    /// 0 valid, 1 bit flipped, 2 truncated, 3 over another message, 4 empty, 5 extended
    pub sig_kind: u8,
    pub flip: u16,
    pub verifier: u8,
}

pub struct Signatures;
impl Part for Signatures {
    type Case = SigCase;
    fn name(&self) -> &'static str { "handshake-signature" }
    fn rule(&self) -> &'static str {
        "verify_tls13_signature of all three verifiers: generated message, signing key in {the certificate's, another}, scheme id in {ED25519, ECDSA, RSA-PSS, RSA-PKCS1, random}, signature in {valid, bit flipped, truncated, over another message, empty, extended}; oracle: accepted <=> scheme is ED25519 and the signature verifies (ring) under the certificate's SPKI key; non-trivial = anything but (own key, ED25519, valid); distinct by case"
    }
    fn strategy(&self, _t: Tier) -> BoxedStrategy<SigCase> {
        let scheme = prop_oneof![4 => Just(0x0807u16), 1 => Just(0x0403u16), 1 => Just(0x0804u16), 1 => Just(0x0401u16), 1 => Just(0x0808u16), 1 => any::<u16>()];
        (0u64..4, 0u64..4, prop::collection::vec(any::<u8>(), 0..200), scheme, prop_oneof![3 => Just(0u8), 1 => 1u8..6], any::<u16>(), 0u8..3)
            .prop_map(|(cert_key, signing_key, message, scheme, sig_kind, flip, verifier)| SigCase { cert_key, signing_key, message, scheme, sig_kind, flip, verifier })
            .boxed()
    }
    fn run(&self, c: &SigCase, obs: &mut Obs) -> Result<(), Fail> {
        let cert_seed = key_seed(1000 + c.cert_key);
        let sign_seed = key_seed(1000 + c.signing_key);
        let cert = adv::self_signed(&cert_seed, &[NAME.to_string()], Validity::Valid);
        let kp = ring::signature::Ed25519KeyPair::from_seed_unchecked(&sign_seed).unwrap();
        let mut sig = match c.sig_kind {
            3 => kp.sign(b"some other message").as_ref().to_vec(),
            _ => kp.sign(&c.message).as_ref().to_vec(),
        };
        match c.sig_kind {
            1 => {
                let i = idx(c.flip, sig.len() * 8);
                sig[i / 8] ^= 1 << (i % 8);
            }
            2 => sig.truncate(idx(c.flip, sig.len())),
            4 => sig.clear(),
            5 => sig.push(0),
            _ => {}
        }
        let which = match c.verifier % 3 {
            0 => ic::Verifier::Client,
            1 => ic::Verifier::Server,
            _ => ic::Verifier::ExpectedServer(peer_id_of_seed(&cert_seed)),
        };
        let imp = ic::verify_tls13_signature(which, &c.message, &cert, c.scheme, &sig).is_ok();
        let want = c.scheme == 0x0807 && x509ref::signature_valid(&cert, &c.message, &sig);
        vensure!(imp == want, if imp { "c01:signature-accepted" } else { "c01:signature-rejected" },
            "verifier {}: handshake signature (scheme {:#06x}, kind {}, signed by key {} for certificate of key {}) accepted={} but should be {}", c.verifier % 3, c.scheme, c.sig_kind, c.signing_key, c.cert_key, imp, want);
        // the only scheme on offer is ED25519 and client authentication is mandatory
        let schemes = ic::supported_verify_schemes(which);
        vensure!(schemes == vec![rustls::SignatureScheme::ED25519], "c01:schemes", "supported verify schemes are {:?}", schemes);
        vensure!(ic::client_auth_policy() == (true, true), "c01:client-auth-optional", "client certificate policy (offer, mandatory) = {:?}", ic::client_auth_policy());
        obs.label(if want { "valid" } else { "invalid" });
        if !(c.cert_key == c.signing_key && c.scheme == 0x0807 && c.sig_kind == 0) {
            obs.nontrivial(c);
        }
        Ok(())
    }
}

// ============================================================ (b) handshake level on the fabric

#[derive(Clone, Debug, Serialize, Deserialize, PartialEq, Eq, Hash)]
pub enum Chain {
    /// Z's own valid certificate
    Own,
    /// X's certificate captured from a real handshake
    ReplayX,
    /// [own, X's]
    OwnThenX,
    /// [X's, own]
    XThenOwn,
    /// X's key spliced into Z's certificate, re-signed by Z
    SplicedX,
    /// X's key as subject, issued and signed by Z
    XSignedByZ,
    /// Z's own valid certificate whose common name contains the encoding of X's key
    OwnWithXShapedName,
    Ecdsa,
    ExpiredOwn,
    /// X's certificate with one byte replaced
    MutatedX(u16, u8),
    /// own certificate for another network name
    OwnWrongName,
    /// no certificate at all (dialing only)
    None,
}

#[derive(Clone, Debug, Serialize, Deserialize, PartialEq, Eq, Hash)]
pub enum Sign {
    OwnKey,
    Junk,
    OtherMessage,
    Ecdsa,
    Mislabelled,
}

#[derive(Clone, Debug, Serialize, Deserialize, PartialEq, Eq, Hash)]
pub enum Role {
    /// Z dials the victim, claiming this SNI (true = the accepted name)
    ZDials { good_sni: bool },
    /// the victim dials Z's address: expecting nobody in particular / X / Z
    VDials { expect: u8 },
}

#[derive(Clone, Debug, Serialize, Deserialize, PartialEq, Eq, Hash)]
pub struct HsCase {
    pub role: Role,
    pub chain: Chain,
    pub sign: Sign,
    /// X is honestly connected to V for the whole case
    pub x_connected: bool,
    /// Z first establishes a legitimate connection under its own identity
    pub z_preconnected: bool,
    /// before the attack an honest listener under Z's own identity answers at Z's address, V dials it
    /// pinned to Z (succeeds), disconnects, and the listener goes away; the attack then comes from
    /// the same address
    #[serde(default)]
    pub v_dialed_z_before: bool,
    pub link_delay_ms: u8,
}

struct ZState {
    streams_received: u64,
}

pub fn handshake_case(c: &HsCase, obs: &mut Obs) -> Result<(), Fail> {
    let c = c.clone();
    run_sim(11, c.link_delay_ms.max(1) as u64, |sim| async move {
        let v = sim.node(0)?;
        let x = sim.node(2)?;
        let z_seed = key_seed(77);
        let z_id = peer_id_of_seed(&z_seed);
        let z_addr = node_addr(3);
        let names = vec![NAME.to_string()];
        // --- Z captures X's certificate from a real handshake with X
        let seen: adv::Recorded = Arc::new(Mutex::new(Vec::new()));
        let sni_seen = Arc::new(Mutex::new(Vec::new()));
        let own = Presented::honest(&z_seed, NAME);
        let probe_ep = adv::raw_endpoint(&sim.fabric, node_addr(4), None).map_err(|e| Fail::Inconclusive(e.to_string()))?;
        let cap = within(10_000, adv::dial_and_await_ack(&probe_ep, adv::client_config(Some(&own), seen.clone()), x.addr(), NAME)).await;
        let x_cert = match (cap, seen.lock().unwrap().first().cloned()) {
            (Ok(Ok(conn)), Some(chain)) => {
                conn.close(0u32.into(), b"bye");
                chain[0].clone()
            }
            (r, _) => return Err(Fail::Inconclusive(format!("could not capture X's certificate: {:?}", r.map(|r| r.map(|_| ())))) ),
        };
        vensure!(x509ref::spki_key(&x_cert) == Ok(x.id().0), "c01:own-id", "X presents a certificate for another key than its PeerId");
        drop(probe_ep);
        // --- what Z presents
        let chain: Vec<Vec<u8>> = match &c.chain {
            Chain::Own => vec![own.chain[0].clone()],
            Chain::ReplayX => vec![x_cert.clone()],
            Chain::OwnThenX => vec![own.chain[0].clone(), x_cert.clone()],
            Chain::XThenOwn => vec![x_cert.clone(), own.chain[0].clone()],
            Chain::SplicedX => vec![adv::spki_spliced_resigned(&x.id().0, &z_seed, &names)],
            Chain::XSignedByZ => vec![adv::signed_by_other(&x.spec.key, &z_seed, &names)],
            Chain::OwnWithXShapedName => vec![adv::key_shaped_name(&x.id().0, &z_seed, &names)],
            Chain::Ecdsa => vec![adv::ecdsa_self_signed(&names).0],
            Chain::ExpiredOwn => vec![adv::self_signed(&z_seed, &names, Validity::Expired)],
            Chain::MutatedX(p, val) => {
                let mut d = x_cert.clone();
                let i = idx(*p, d.len());
                d[i] = *val;
                vec![d]
            }
            Chain::OwnWrongName => vec![adv::self_signed(&z_seed, &["othernet".to_string()], Validity::Valid)],
            Chain::None => vec![],
        };
        // note: XSignedByZ needs X's *private* seed only to build a KeyPair for rcgen's API; the
        // resulting certificate contains X's public key and Z's signature, nothing else of X
        let signer = match &c.sign {
            Sign::OwnKey => SignerKind::Ed25519(z_seed),
            Sign::Junk => SignerKind::Junk,
            Sign::OtherMessage => SignerKind::OtherMessage(z_seed),
            Sign::Ecdsa => SignerKind::EcdsaP256(adv::ecdsa_self_signed(&names).1),
            Sign::Mislabelled => SignerKind::Mislabelled(z_seed),
        };
        let presented = if chain.is_empty() { None } else { Some(Presented { chain: chain.clone(), signer }) };
        // identities the adversary can legitimately be admitted as: only its own, and only when
        // the leaf certificate is its own valid one and it signs with its own key
        // (dialed without any certificate of its own, Z's listener falls back to its honest identity)
        let falls_back_to_own = matches!(c.chain, Chain::None) && matches!(c.role, Role::VDials { .. });
        let legit = (matches!(c.chain, Chain::Own | Chain::OwnThenX | Chain::OwnWithXShapedName) && matches!(c.sign, Sign::OwnKey)) || falls_back_to_own;

        let (mut ev_rx, _snap) = v.net.subscribe().map_err(|e| Fail::Inconclusive(e.to_string()))?;
        if c.x_connected {
            match within(10_000, x.net.connect(v.addr())).await {
                Ok(Ok(_)) => {}
                _ => return Err(Fail::Inconclusive("honest X could not connect to V".into())),
            }
        }
        if c.v_dialed_z_before {
            let ep0 = adv::raw_endpoint(&sim.fabric, z_addr, Some(adv::server_config(&own, false, Arc::new(Mutex::new(Vec::new())), Arc::new(Mutex::new(Vec::new())))))
                .map_err(|e| Fail::Inconclusive(e.to_string()))?;
            let ep0b = ep0.clone();
            let t = tokio::spawn(async move { let c = adv::accept_and_ack(&ep0b).await; if let Ok(c) = c { c.closed().await; } });
            match within(15_000, v.net.connect_with_peer_id(z_addr, z_id)).await {
                Ok(Ok(p)) => vensure!(p == z_id, "c01:dial-returned-wrong-id", "honest pinned dial of Z returned {p}"),
                other => return Err(Fail::Inconclusive(format!("honest pinned dial of Z failed: {:?}", other.map(|r| r.map_err(|e| e.to_string()))))),
            }
            let _ = v.net.disconnect(z_id);
            ep0.close(0u32.into(), b"");
            drop(ep0);
            let _ = within(5_000, t).await;
            for _ in 0..200 {
                if !sim.fabric.is_bound(z_addr) { break; }
                sleep_ms(50).await;
            }
            if sim.fabric.is_bound(z_addr) { return Err(Fail::Inconclusive("the first listener did not release Z's address".into())); }
            obs.label("victim-dialed-this-address-pinned-to-Z-before");
        }
        // Z's endpoint (server side presents the same material)
        let z_server = presented.clone().unwrap_or_else(|| own.clone());
        let z_ep = adv::raw_endpoint(&sim.fabric, z_addr, Some(adv::server_config(&z_server, false, seen.clone(), sni_seen.clone())))
            .map_err(|e| Fail::Inconclusive(e.to_string()))?;
        let zstate = Arc::new(Mutex::new(ZState { streams_received: 0 }));
        // Z serves whatever arrives: acknowledge connections like an anemo listener, count request streams
        {
            let ep = z_ep.clone();
            let zs = zstate.clone();
            tokio::spawn(async move {
                loop {
                    let conn = match adv::accept_and_ack(&ep).await {
                        Ok(c) => c,
                        Err(e) if e == adv::ENDPOINT_CLOSED => return,
                        Err(_) => continue,
                    };
                    let zs = zs.clone();
                    tokio::spawn(async move {
                        while let Ok((_tx, mut rx)) = conn.accept_bi().await {
                            zs.lock().unwrap().streams_received += 1;
                            let _ = rx.read_to_end(1 << 20).await;
                        }
                    });
                }
            });
        }
        let mut z_conns: Vec<quinn::Connection> = Vec::new();
        if c.z_preconnected {
            // a legitimate connection under Z's own identity, opened by Z
            if let Ok(Ok(conn)) = within(10_000, adv::dial_and_await_ack(&z_ep, adv::client_config(Some(&own), seen.clone()), v.addr(), NAME)).await {
                z_conns.push(conn);
            }
            sleep_ms(50).await;
        }

        // --- the attack
        let mut admitted_as: Option<PeerId> = None;
        match &c.role {
            Role::ZDials { good_sni } => {
                let sni = if *good_sni { NAME } else { "othernet" };
                let r = within(15_000, adv::dial_and_await_ack(&z_ep, adv::client_config(presented.as_ref(), seen.clone()), v.addr(), sni)).await;
                if let Ok(Ok(conn)) = r {
                    vensure!(legit || c.z_preconnected, "c01:adversary-admitted", "Z dialed V presenting {:?} signed with {:?} and was acknowledged by V", c.chain, c.sign);
                    // Z speaks: a well-formed request; V's handler must attribute it to Z's own key
                    let ctl = Ctl { id: 4242, delay_ms: 0, status_idx: 0, resp_len: 4, resp_hdrs: 0, mode: 0 };
                    let req = crate::refmodel::wire::encode_request(&crate::refmodel::wire::RefRequest {
                        version: 1,
                        route: "/from-z".into(),
                        headers: vec![("peer-id".into(), hex::encode(x.id().0)), ("x-forwarded-for".into(), hex::encode(x.id().0))],
                        body: ctl.encode(recorder::CTL_LEN + 32).to_vec(),
                    });
                    let _ = within(5_000, adv::raw_rpc(&conn, &req)).await;
                    z_conns.push(conn);
                }
            }
            Role::VDials { expect } => {
                let r = match expect % 3 {
                    0 => within(15_000, v.net.connect(z_addr)).await,
                    1 => within(15_000, v.net.connect_with_peer_id(z_addr, x.id())).await,
                    _ => within(15_000, v.net.connect_with_peer_id(z_addr, z_id)).await,
                };
                match r {
                    Ok(Ok(p)) => {
                        vensure!(p == z_id, "c01:dial-returned-wrong-id", "V dialed Z's address (expecting {}) and got Ok({p}); the party reached holds only the key of {z_id}", match expect % 3 { 0 => "nobody".to_string(), 1 => format!("X={}", x.id()), _ => "Z".to_string() });
                        vensure!(expect % 3 != 1, "c01:pinned-dial-succeeded", "V dialed expecting X and the dial succeeded although X's key is not at that address");
                        vensure!(legit, "c01:adversary-admitted", "V dialed Z which presented {:?} signed with {:?}, and the dial succeeded", c.chain, c.sign);
                        admitted_as = Some(p);
                    }
                    Ok(Err(_)) => {}
                    Err(()) => vfail!("c01:dial-hang", "connect to the adversary's address did not return within 15 virtual seconds"),
                }
            }
        }
        sleep_ms(200).await;
        // --- V calls X (if it believes it is connected to X): the request must reach the real X
        let v_lists_x = v.net.peers().contains(&x.id());
        vensure!(v_lists_x == c.x_connected, "c01:impersonated-in-listing", "V lists X = {v_lists_x} although X is honestly connected = {} (Z presented {:?}/{:?} as {:?})", c.x_connected, c.chain, c.sign, c.role);
        if v_lists_x {
            let ctl = Ctl { id: 777, delay_ms: 0, status_idx: 0, resp_len: 8, resp_hdrs: 0, mode: 0 };
            match within(5_000, v.net.rpc(x.id(), ctl_request("/to-x", &[], &ctl, 64))).await {
                Ok(Ok(resp)) => {
                    vensure!(resp.peer_id() == Some(&x.id()), "c01:response-attribution", "response attributed to {:?}", resp.peer_id());
                    vensure!(x.rec.starts_of(777).len() == 1, "c01:request-misdelivered", "V's request for X was answered but the real X never saw it");
                }
                other => vfail!("c01:honest-peer-disturbed", "V's RPC to the honestly connected X failed: {:?}", other.map(|r| r.map(|_| ()).map_err(|e| e.to_string()))),
            }
        }
        vensure!(zstate.lock().unwrap().streams_received == 0, "c01:request-misdelivered", "a request V addressed to X arrived at the adversary");
        // --- everything V attributed during the case
        let mut attributed: Vec<(String, PeerId)> = v.net.peers().into_iter().map(|p| ("listing".to_string(), p)).collect();
        while let Ok(ev) = ev_rx.try_recv() {
            match ev {
                anemo::types::PeerEvent::NewPeer(p) => attributed.push(("NewPeer".into(), p)),
                anemo::types::PeerEvent::LostPeer(p, _) => {
                    vensure!(!(p == x.id() && c.x_connected), "c01:honest-peer-disturbed", "V reported LostPeer(X) although X did nothing");
                    attributed.push(("LostPeer".into(), p));
                }
            }
        }
        for r in v.rec.snapshot() {
            if let Some(p) = r.peer {
                attributed.push((format!("request {:?} on route {}", r.id, r.route), PeerId(p)));
            }
            vensure!(r.inbound == Some(true), "c01:direction", "handler saw direction inbound={:?}", r.inbound);
        }
        for (what, p) in &attributed {
            let ok = *p == z_id && (legit || c.z_preconnected || c.v_dialed_z_before) || (*p == x.id() && c.x_connected);
            vensure!(ok, "c01:attributed-to-unproven-identity", "V attributed {what} to {p}; Z holds only {z_id} (presented {:?} signed {:?}, role {:?}); X connected = {}", c.chain, c.sign, c.role, c.x_connected);
        }
        // a request sent by Z under its own legit identity must be attributed to Z, whatever it says
        if let Some(s) = v.rec.find(4242, Ev::Start) {
            vensure!(s.peer == Some(z_id.0), "c01:message-influenced-identity", "Z's request naming X in headers/body was attributed to {:?}", s.peer.map(hex::encode));
        }
        let _ = admitted_as;
        sim.health()?;
        check_no_panics("during adversarial handshakes")?;
        obs.label(format!("{:?}", c.role).split_whitespace().next().unwrap_or("").to_string());
        obs.label(if legit { "legit-identity" } else { "forged-identity" });
        if !(matches!(c.chain, Chain::Own) && matches!(c.sign, Sign::OwnKey)) {
            obs.nontrivial(&c);
        }
        Ok(())
    })
}

pub struct Handshakes;
impl Part for Handshakes {
    type Case = HsCase;
    fn name(&self) -> &'static str { "handshake" }
    fn rule(&self) -> &'static str {
        "victim V and honest X are real networks on the fabric, adversary Z is a raw quinn endpoint holding only its own key; Z captures X's certificate from a real handshake and then dials V or is dialed by V (connect / connect_with_peer_id(X) / connect_with_peer_id(Z)), presenting one of {own, X replayed, [own,X], [X,own], X's key spliced+re-signed, X's key issued by Z, own certificate with X's key encoded inside its common name, ECDSA, expired, X's cert with a byte changed, wrong network name, none} and signing the handshake with {own key, junk, a signature over another message, ECDSA key, a mislabelled scheme}; X optionally honestly connected, Z optionally already connected under its own identity, V optionally having dialed the same address pinned to Z before (an honest listener answered then); oracle: every identity V lists, announces, returns from connect, shows to handlers or attaches to responses is Z's own (only when Z legitimately proved it) or the honestly connected X; a request for X never reaches Z; a pinned dial for X never succeeds; non-trivial = anything but (own certificate, own key); distinct by case"
    }
    fn strategy(&self, _t: Tier) -> BoxedStrategy<HsCase> {
        let chain = prop_oneof![
            2 => Just(Chain::Own), 3 => Just(Chain::ReplayX), 3 => Just(Chain::OwnThenX), 2 => Just(Chain::XThenOwn), 2 => Just(Chain::SplicedX),
            2 => Just(Chain::XSignedByZ), 2 => Just(Chain::OwnWithXShapedName), 1 => Just(Chain::Ecdsa), 1 => Just(Chain::ExpiredOwn), 2 => (any::<u16>(), any::<u8>()).prop_map(|(p, v)| Chain::MutatedX(p, v)),
            1 => Just(Chain::OwnWrongName), 1 => Just(Chain::None),
        ];
        let sign = prop_oneof![5 => Just(Sign::OwnKey), 1 => Just(Sign::Junk), 1 => Just(Sign::OtherMessage), 1 => Just(Sign::Ecdsa), 1 => Just(Sign::Mislabelled)];
        let role = prop_oneof![3 => prop::bool::weighted(0.85).prop_map(|good_sni| Role::ZDials { good_sni }), 3 => (0u8..3).prop_map(|expect| Role::VDials { expect })];
        (role, chain, sign, any::<bool>(), prop::bool::weighted(0.3), 1u8..20, prop::bool::weighted(0.25))
            .prop_map(|(role, chain, sign, x_connected, z_preconnected, link_delay_ms, v_dialed_z_before)| HsCase { role, chain, sign, x_connected, z_preconnected, v_dialed_z_before, link_delay_ms })
            .boxed()
    }
    fn run(&self, c: &HsCase, obs: &mut Obs) -> Result<(), Fail> { handshake_case(c, obs) }
}

// ============================================================ (c) message level

#[derive(Clone, Debug, Serialize, Deserialize, PartialEq, Eq, Hash)]
pub struct MsgCase {
    pub from_a: bool,
    /// header keys that try to name an identity
    pub keys: Vec<String>,
    /// body: 0 = other id raw, 1 = other id hex, 2 = bincode-looking PeerId extension
    pub body_kind: u8,
    pub claim_third: bool,
    /// further header keys: picks from the dictionary of string literals harvested from the
    /// sources under test (header names the code knows about)
    #[serde(default)]
    pub dict_keys: Vec<u16>,
    /// also exercise the error path of the typed client: the callee answers with this status
    /// (index into the status table) and the same identity-naming headers
    #[serde(default)]
    pub error_status: Option<u8>,
}

pub struct Messages;
impl Part for Messages {
    type Case = MsgCase;
    fn name(&self) -> &'static str { "message" }
    fn rule(&self) -> &'static str {
        "honest A<->B RPCs whose headers (peer-id, x-peer-id, from, extension-like keys, and up to 12 keys drawn from the dictionary of string literals harvested from the sources under test) and bodies name another identity (the callee's own, or a third party's; hex lower/upper, Display and Debug forms), and a responder that answers a typed-client call with a non-success status carrying the same headers; oracle: the PeerId/Direction the handler sees equal the transport truth (the caller), response.peer_id() equals the callee, the Status a typed client returns names the responder (or nobody); non-trivial = every case; distinct by case"
    }
    fn strategy(&self, _t: Tier) -> BoxedStrategy<MsgCase> {
        let key = prop_oneof![Just("peer-id".to_string()), Just("x-peer-id".to_string()), Just("from".to_string()), Just("PeerId".to_string()), Just("anemo::types::peer_id::PeerId".to_string()), "[a-z-]{1,12}"];
        (any::<bool>(), prop::collection::vec(key, 0..5), 0u8..3, any::<bool>(), prop::collection::vec(any::<u16>(), 0..12), prop::option::weighted(0.6, 0u8..7))
            .prop_map(|(from_a, keys, body_kind, claim_third, dict_keys, error_status)| MsgCase { from_a, keys, body_kind, claim_third, dict_keys, error_status })
            .boxed()
    }
    fn run(&self, c: &MsgCase, obs: &mut Obs) -> Result<(), Fail> {
        let c = c.clone();
        run_sim(13, 2, |sim| async move {
            let a = sim.node(0)?;
            let b = sim.node(1)?;
            match within(10_000, a.net.connect(b.addr())).await {
                Ok(Ok(p)) => vensure!(p == b.id(), "c01:dial-returned-wrong-id", "connect returned {p}, reached {}", b.id()),
                _ => return Err(Fail::Inconclusive("connect failed".into())),
            }
            sleep_ms(50).await;
            let (caller, callee) = if c.from_a { (&a, &b) } else { (&b, &a) };
            let claimed = if c.claim_third { peer_id_of_seed(&key_seed(99)) } else { callee.id() };
            let dict = crate::srcdict::header_like_literals();
            let mut keys: Vec<String> = c.keys.clone();
            if !dict.is_empty() { keys.extend(c.dict_keys.iter().map(|i| dict[idx(*i, dict.len())].clone())); }
            let encodings = [hex::encode(claimed.0), hex::encode_upper(claimed.0), format!("{claimed}"), format!("{claimed:?}")];
            let headers: Vec<(String, String)> = keys.iter().enumerate().filter(|(_, k)| !["timeout", "x-resp-pad"].contains(&k.as_str())).map(|(i, k)| (k.clone(), encodings[i % encodings.len()].clone())).collect();
            let ctl = Ctl { id: 1, delay_ms: 0, status_idx: 0, resp_len: 16, resp_hdrs: 2, mode: 0 };
            let mut req = ctl_request("/whoami", &headers, &ctl, recorder::CTL_LEN);
            let mut body = req.body().to_vec();
            match c.body_kind % 3 {
                0 => body.extend_from_slice(&claimed.0),
                1 => body.extend_from_slice(hex::encode(claimed.0).as_bytes()),
                _ => { body.extend_from_slice(&32u64.to_le_bytes()); body.extend_from_slice(&claimed.0); }
            }
            *req.body_mut() = bytes::Bytes::from(body);
            // a local extension claiming another identity must not travel either
            let req = req.with_extension(claimed);
            match within(5_000, caller.net.rpc(callee.id(), req)).await {
                Ok(Ok(resp)) => vensure!(resp.peer_id() == Some(&callee.id()), "c01:response-attribution", "response attributed to {:?}, callee is {}", resp.peer_id(), callee.id()),
                other => return Err(Fail::Inconclusive(format!("rpc failed: {:?}", other.map(|r| r.map(|_| ()).map_err(|e| e.to_string()))))),
            }
            let Some(s) = callee.rec.find(1, Ev::Start) else { vfail!("c01:request-misdelivered", "handler never saw the request") };
            vensure!(s.peer == Some(caller.id().0), "c01:message-influenced-identity", "handler attributes the request to {:?}; the caller is {} (the message named {})", s.peer.map(hex::encode), caller.id(), claimed);
            vensure!(s.inbound == Some(true), "c01:direction", "direction seen by the handler: inbound={:?}", s.inbound);
            vensure!(s.origin_inbound == Some(c.from_a), "c01:origin", "connection origin seen by the handler: inbound={:?}, expected {}", s.origin_inbound, c.from_a);
            // the error path of the typed client: a responder that answers with a non-success status and
            // the same identity-naming headers; the Status the caller gets must still name the responder
            if let Some(si) = c.error_status {
                let code = [400u16, 404, 408, 429, 500, 505, 520][si as usize % 7];
                let hdrs = headers.clone();
                let svc = tower::service_fn(move |_req: anemo::Request<bytes::Bytes>| {
                    let hdrs = hdrs.clone();
                    async move {
                        let mut resp = anemo::Response::new(bytes::Bytes::from_static(b"no")).with_status(anemo::types::response::StatusCode::new(code).unwrap());
                        for (k, v) in hdrs { resp.headers_mut().insert(k, v); }
                        Ok::<_, std::convert::Infallible>(resp)
                    }
                });
                let rspec = NodeSpec::new(7);
                let responder = sim.start_node(&rspec, svc).map_err(|e| Fail::Inconclusive(e.to_string()))?;
                match within(10_000, caller.net.connect(rspec.addr)).await {
                    Ok(Ok(p)) => vensure!(p == responder.peer_id(), "c01:dial-returned-wrong-id", "connect returned {p}"),
                    _ => return Err(Fail::Inconclusive("connect to the responder failed".into())),
                }
                let peer = caller.net.peer(responder.peer_id()).ok_or_else(|| Fail::Inconclusive("no peer handle".into()))?;
                let mut client = anemo::rpc::client::Rpc::new(peer);
                let r: Result<anemo::Response<String>, anemo::rpc::Status> = within(5_000, client.unary(anemo::Request::new("q".to_string()), anemo::rpc::codec::BincodeCodec::<String, String>::default())).await.map_err(|_| Fail::Inconclusive("typed call hung".into()))?;
                match r {
                    Err(status) => {
                        vensure!(status.peer_id().map_or(true, |p| *p == responder.peer_id()), "c01:status-attribution", "the error status of a typed call is attributed to {:?}; the responder is {} (its response carried headers {:?} naming {claimed})", status.peer_id(), responder.peer_id(), keys);
                        obs.label("typed-client-error-path");
                    }
                    Ok(resp) => vfail!("c01:status", "a response with status {code} surfaced as a typed success: {:?}", resp.status()),
                }
            }
            obs.nontrivial(&c);
            Ok(())
        })
    }
}

pub fn run(tier: Tier) -> i32 {
    let mut ctx = Ctx::new("C01", tier);
    ctx.assume("trusted base: rustls' TLS 1.3 state machine, webpki and ring; deviations of the TLS state machine itself (omitted CertificateVerify, malformed handshake framing) cannot be produced with stock rustls and are not explored");
    ctx.assume("the reference acceptance predicate (x509-parser + ring) is used one-directionally: implementation accepts => reference accepts");
    let rep = exhaustive_mutations(&ctx.known, tier.pick(2, 8) as u64);
    ctx.push_report(rep);
    ctx.run_part(Verifiers, tier.pick(6_000, 200_000));
    ctx.run_part(Signatures, tier.pick(6_000, 200_000));
    ctx.run_part(Handshakes, tier.pick(1_500, 120_000));
    ctx.run_part(Messages, tier.pick(600, 30_000));
    if tier == Tier::Thorough {
        crate::fuzzrun::campaign(&mut ctx, "cert_verify", 400_000);
    }
    ctx.finish()
}
