//! C18 — per-peer in-flight limit holds and never leaks capacity.
//!
//! Futures are polled by hand with a no-op waker, so the harness owns the interleaving.

use crate::core::*;
use crate::{vensure, vfail};
use anemo::rpc::Status;
use anemo::types::response::StatusCode;
use anemo::{PeerId, Request, Response};
use anemo_tower::inflight_limit::{InflightLimitLayer, WaitMode};
use bytes::Bytes;
use futures::future::BoxFuture;
use proptest::prelude::*;
use serde::{Deserialize, Serialize};
use std::collections::{BTreeMap, BTreeSet};
use std::future::Future;
use std::sync::{Arc, Mutex};
use std::task::{Context, Poll};
use tokio::sync::oneshot;
use tower::{Layer, Service};

#[derive(Clone, Debug, Serialize, Deserialize, PartialEq, Eq, Hash)]
pub enum Op {
    /// a request from peer `peer` through service clone `svc`; `anon` = no PeerId attached
    Arrive { peer: u8, svc: u8, anon: bool },
    /// poll the i-th live request once
    Poll(u16),
    /// let the i-th running request finish (ok / planned error) and poll it
    Release(u16, bool),
    /// drop the i-th live request's future
    Cancel(u16),
    /// poll every live request until nothing changes
    Settle,
    /// this many seconds pass (tokio's clock) without anything else happening
    Elapse(u16),
}

#[derive(Clone, Debug, Serialize, Deserialize, PartialEq, Eq, Hash)]
pub struct Case {
    pub max: u8,
    pub block: bool,
    pub peers: u8,
    pub services: u8,
    #[serde(default)]
    pub id_layout: u8,
    pub ops: Vec<Op>,
}

#[derive(Default)]
struct Shared {
    gauge: BTreeMap<u8, i64>,
    running: BTreeMap<u64, (u8, Option<oneshot::Sender<bool>>)>,
    invoked: BTreeSet<u64>,
    over_limit: Option<String>,
    max: i64,
}

#[derive(Clone)]
struct Inner(Arc<Mutex<Shared>>);

struct Guard(Arc<Mutex<Shared>>, u8, u64);
impl Drop for Guard {
    fn drop(&mut self) {
        let mut s = self.0.lock().unwrap();
        *s.gauge.entry(self.1).or_insert(0) -= 1;
        s.running.remove(&self.2);
    }
}

impl Service<Request<Bytes>> for Inner {
    type Response = Response<Bytes>;
    type Error = Status;
    type Future = BoxFuture<'static, Result<Response<Bytes>, Status>>;
    fn poll_ready(&mut self, _: &mut Context<'_>) -> Poll<Result<(), Status>> {
        Poll::Ready(Ok(()))
    }
    fn call(&mut self, req: Request<Bytes>) -> Self::Future {
        // The request counts as "inside the service" from the moment `call` is entered (a service may
        // start its work there: spawn, enqueue, take a resource), until its future completes or is dropped.
        let shared = self.0.clone();
        let id: u64 = req.headers().get("id").and_then(|s| s.parse().ok()).unwrap_or(u64::MAX);
        let peer: u8 = req.headers().get("peer").and_then(|s| s.parse().ok()).unwrap_or(255);
        let (tx, rx) = oneshot::channel();
        {
            let mut s = shared.lock().unwrap();
            let g = s.gauge.entry(peer).or_insert(0);
            *g += 1;
            let g = *g;
            if g > s.max && s.over_limit.is_none() && peer < 250 {
                s.over_limit = Some(format!("peer {peer}: {g} requests inside the service, limit {}", s.max));
            }
            s.invoked.insert(id);
            s.running.insert(id, (peer, Some(tx)));
        }
        let guard = Guard(shared, peer, id);
        Box::pin(async move {
            let _guard = guard;
            match rx.await {
                Ok(true) => Ok(Response::new(Bytes::from(id.to_string()))),
                Ok(false) => Err(Status::new_with_message(StatusCode::BadRequest, format!("planned-{id}"))),
                Err(_) => futures::future::pending().await,
            }
        })
    }
}

struct Live {
    id: u64,
    peer: u8,
    anon: bool,
    fut: BoxFuture<'static, Result<Response<Bytes>, Status>>,
    polled: bool,
    /// model: admitted to the service
    admitted: bool,
    released: Option<bool>,
}

/// Peer ids share all bytes but one; `layout` selects which byte tells peers apart.
fn peer_id(p: u8, layout: u8) -> PeerId {
    let mut id = [0x5C; 32];
    id[[0usize, 5, 8, 16, 31][layout as usize % 5]] = p.wrapping_add(1);
    PeerId(id)
}

pub fn check(case: &Case, obs: &mut Obs) -> Result<(), Fail> {
    let max = case.max as usize;
    let mode = if case.block { WaitMode::Block } else { WaitMode::ReturnError };
    let shared = Arc::new(Mutex::new(Shared { max: max as i64, ..Default::default() }));
    let layer = InflightLimitLayer::new(max, mode);
    let mut services: Vec<_> = (0..case.services.max(1)).map(|_| layer.layer(Inner(shared.clone()))).collect();
    // also exercise Clone of a layered service
    let extra = services[0].clone();
    services.push(extra);
    let waker = futures::task::noop_waker();
    let mut cx = Context::from_waker(&waker);
    // A tokio context is present, as it always is under anemo: an implementation may spawn tasks
    // or use tokio's timers. The harness still owns every poll of the request futures; tasks the
    // implementation spawned are run to quiescence after each step.
    let rt = tokio::runtime::Builder::new_current_thread().enable_all().start_paused(true).build().map_err(|e| Fail::Inconclusive(e.to_string()))?;
    let _enter = rt.enter();
    macro_rules! drive {
        () => {
            rt.block_on(async { for _ in 0..4 { tokio::task::yield_now().await; } });
        };
    }
    let mut live: Vec<Live> = Vec::new();
    let mut next_id = 0u64;
    let mut saw_limit = false;
    let mut saw_cancel_running = false;
    let mut saw_error_release = false;
    let mut multi_peer_pressure = false;

    // polls one live request; returns true if it completed (and was removed)
    fn running_of(shared: &Arc<Mutex<Shared>>, peer: u8) -> i64 {
        *shared.lock().unwrap().gauge.get(&peer).unwrap_or(&0)
    }

    macro_rules! poll_one {
        ($i:expr) => {{
            let i: usize = $i;
            let first = !live[i].polled;
            let peer = live[i].peer;
            let before = running_of(&shared, peer);
            live[i].polled = true;
            let r = live[i].fut.as_mut().poll(&mut cx);
            drive!();
            let invoked = shared.lock().unwrap().invoked.contains(&live[i].id);
            if let Some(m) = shared.lock().unwrap().over_limit.clone() {
                vfail!("c18:over-limit", "{m}");
            }
            if live[i].anon {
                match &r {
                    Poll::Ready(Err(s)) if !invoked => { let _ = s; }
                    _ => vfail!("c18:anon", "request without PeerId: expected an error and no invocation, got ready={} invoked={}", r.is_ready(), invoked),
                }
            } else if first && !case.block {
                let should_admit = before < max as i64;
                if should_admit {
                    vensure!(invoked, "c18:refused-below-limit", "peer {peer}: {before} running < max {max} at first poll but the request was not admitted");
                    live[i].admitted = true;
                } else {
                    saw_limit = true;
                    match &r {
                        Poll::Ready(Err(s)) if s.status() == StatusCode::TooManyRequests && !invoked => {}
                        Poll::Ready(Err(s)) if !invoked => vfail!("c18:wrong-status", "over-limit request refused with {:?} instead of TooManyRequests", s.status()),
                        _ => vfail!("c18:admitted-over-limit", "peer {peer}: {before} running >= max {max} but the request was admitted (invoked={invoked})"),
                    }
                }
            } else if invoked {
                live[i].admitted = true;
            }
            match r {
                Poll::Ready(res) => {
                    let l = live.remove(i);
                    if let Some(ok) = l.released {
                        match (&res, ok) {
                            (Ok(resp), true) => vensure!(resp.body().as_ref() == l.id.to_string().as_bytes(), "c18:response-mixup", "request {} got another request's response", l.id),
                            (Err(s), false) => vensure!(s.status() == StatusCode::BadRequest, "c18:error-changed", "inner error not passed through: {:?}", s.status()),
                            _ => vfail!("c18:result-mismatch", "request {} released ok={} but result is_ok={}", l.id, ok, res.is_ok()),
                        }
                    } else if l.admitted {
                        vfail!("c18:spurious-completion", "request {} completed without being released", l.id);
                    }
                    true
                }
                Poll::Pending => false,
            }
        }};
    }

    macro_rules! settle {
        () => {{
            loop {
                let mut changed = false;
                let mut i = 0;
                while i < live.len() {
                    let before_adm = live[i].admitted;
                    let before_polled = live[i].polled;
                    if poll_one!(i) {
                        changed = true;
                    } else {
                        if live[i].admitted != before_adm || !before_polled {
                            changed = true;
                        }
                        i += 1;
                    }
                }
                if !changed {
                    break;
                }
            }
            // Block mode at quiescence: running = min(max, live requests of that peer)
            for p in 0..case.peers {
                let run = running_of(&shared, p);
                let live_p = live.iter().filter(|l| l.peer == p && !l.anon).count() as i64;
                vensure!(run <= max as i64, "c18:over-limit", "peer {p}: {run} running > max {max}");
                if case.block {
                    let want = live_p.min(max as i64);
                    vensure!(run == want, "c18:capacity-leak", "peer {p} at quiescence: {run} running, expected min(max={max}, live={live_p}) = {want}");
                    if live_p > max as i64 {
                        saw_limit = true;
                    }
                }
            }
            let busy = (0..case.peers).filter(|p| running_of(&shared, *p) >= max as i64 && max > 0).count();
            if busy >= 1 && (0..case.peers).any(|p| running_of(&shared, p) < max as i64 && live.iter().any(|l| l.peer == p)) {
                multi_peer_pressure = true;
            }
        }};
    }

    for op in &case.ops {
        match op {
            Op::Arrive { peer, svc, anon } => {
                let peer = *peer % case.peers.max(1);
                let id = next_id;
                next_id += 1;
                let mut req = Request::new(Bytes::new()).with_header("id", id.to_string()).with_header("peer", peer.to_string());
                if !anon {
                    req = req.with_extension(peer_id(peer, case.id_layout));
                }
                let n = services.len();
                let s = &mut services[*svc as usize % n];
                match s.poll_ready(&mut cx) {
                    Poll::Ready(Ok(())) => {}
                    _ => vfail!("c18:not-ready", "layered service not ready although the inner service is"),
                }
                let fut = s.call(req);
                live.push(Live { id, peer, anon: *anon, fut, polled: false, admitted: false, released: None });
            }
            Op::Poll(i) => {
                if !live.is_empty() {
                    let i = idx(*i, live.len());
                    poll_one!(i);
                }
            }
            Op::Release(i, ok) => {
                let running: Vec<usize> = (0..live.len()).filter(|i| live[*i].admitted && live[*i].released.is_none()).collect();
                if !running.is_empty() {
                    let i = running[idx(*i, running.len())];
                    let tx = shared.lock().unwrap().running.get_mut(&live[i].id).and_then(|e| e.1.take());
                    if let Some(tx) = tx {
                        let _ = tx.send(*ok);
                        live[i].released = Some(*ok);
                        if !ok {
                            saw_error_release = true;
                        }
                        let done = poll_one!(i);
                        vensure!(done, "c18:stuck", "released request did not complete when polled");
                    }
                }
            }
            Op::Cancel(i) => {
                if !live.is_empty() {
                    let i = idx(*i, live.len());
                    let l = live.remove(i);
                    if l.admitted {
                        saw_cancel_running = true;
                    }
                    let peer = l.peer;
                    let before = running_of(&shared, peer);
                    let was_running = shared.lock().unwrap().running.contains_key(&l.id);
                    drop(l);
                    drive!();
                    let after = running_of(&shared, peer);
                    vensure!(after == before - was_running as i64, "c18:cancel", "cancelling a request changed the gauge from {before} to {after} (was running: {was_running})");
                }
            }
            Op::Settle => settle!(),
            Op::Elapse(secs) => {
                rt.block_on(tokio::time::advance(std::time::Duration::from_secs(*secs as u64)));
                drive!();
            }
        }
        for p in 0..case.peers {
            let run = running_of(&shared, p);
            vensure!(run <= max as i64, "c18:over-limit", "peer {p}: {run} running > max {max}");
        }
    }
    // drain: release everything that runs, cancel everything that waits
    settle!();
    loop {
        let running: Vec<usize> = (0..live.len()).filter(|i| live[*i].admitted && live[*i].released.is_none()).collect();
        let Some(&i) = running.first() else { break };
        let tx = shared.lock().unwrap().running.get_mut(&live[i].id).and_then(|e| e.1.take());
        match tx {
            Some(tx) => {
                let _ = tx.send(true);
                live[i].released = Some(true);
                let done = poll_one!(i);
                vensure!(done, "c18:stuck", "released request did not complete when polled");
            }
            None => vfail!("c18:model", "admitted request {} has no release handle", live[i].id),
        }
        settle!();
    }
    live.clear();
    for p in 0..case.peers {
        vensure!(running_of(&shared, p) == 0, "c18:cancel", "peer {p}: gauge {} after everything finished", running_of(&shared, p));
    }
    // no leaked permit: `max` fresh requests per peer run concurrently, one more does not
    for p in 0..case.peers {
        let mut fresh = Vec::new();
        for k in 0..=max {
            let id = next_id;
            next_id += 1;
            let req = Request::new(Bytes::new()).with_header("id", id.to_string()).with_header("peer", p.to_string()).with_extension(peer_id(p, case.id_layout));
            let mut fut = services[0].call(req);
            let r = fut.as_mut().poll(&mut cx);
            drive!();
            let invoked = shared.lock().unwrap().invoked.contains(&id);
            if k < max {
                vensure!(invoked && r.is_pending(), "c18:capacity-leak", "peer {p}: after the history only {k} of max {max} fresh requests could run concurrently");
            } else {
                vensure!(!invoked, "c18:over-limit", "peer {p}: request {} of max {max} entered the service", k + 1);
                if !case.block {
                    vensure!(matches!(&r, Poll::Ready(Err(s)) if s.status() == StatusCode::TooManyRequests), "c18:wrong-status", "over-limit request not refused with TooManyRequests");
                }
            }
            fresh.push(fut);
        }
        drop(fresh);
        vensure!(running_of(&shared, p) == 0, "c18:cancel", "peer {p}: gauge not zero after dropping the probes");
    }
    obs.label(if case.block { "mode:block" } else { "mode:return-error" });
    if saw_limit { obs.label("limit-was-binding"); }
    if saw_cancel_running { obs.label("cancelled-a-running-request"); }
    if multi_peer_pressure { obs.label("one-peer-at-limit-while-another-below"); }
    if saw_limit && (saw_cancel_running || saw_error_release) {
        obs.nontrivial(case);
    }
    Ok(())
}

pub struct Histories;
impl Part for Histories {
    type Case = Case;
    fn name(&self) -> &'static str { "histories" }
    fn rule(&self) -> &'static str {
        "histories of Arrive/Poll/Release(ok|err)/Cancel/Settle/Elapse(1 s - 66 min of tokio's paused clock) over max 0-5, both wait modes, 1-4 peers, 1-3 services from one layer plus a clone; futures polled by hand in generated order; per-step gauge<=max, ReturnError admission iff running<max at first poll, Block: running=min(max,live) at quiescence, final probe that exactly max fresh requests per peer run; non-trivial = the limit was binding at some point AND a running request was cancelled or failed; distinct by whole history"
    }
    fn strategy(&self, _t: Tier) -> BoxedStrategy<Case> {
        let op = prop_oneof![
            5 => (0u8..4, 0u8..4, prop::bool::weighted(0.05)).prop_map(|(peer, svc, anon)| Op::Arrive { peer, svc, anon }),
            3 => any::<u16>().prop_map(Op::Poll),
            3 => (any::<u16>(), prop::bool::weighted(0.7)).prop_map(|(i, ok)| Op::Release(i, ok)),
            2 => any::<u16>().prop_map(Op::Cancel),
            2 => Just(Op::Settle),
            1 => prop_oneof![1u16..120, 290u16..4000].prop_map(Op::Elapse),
        ];
        (0u8..6, any::<bool>(), 1u8..5, 1u8..4, 0u8..5, prop::collection::vec(op, 0..60))
            .prop_map(|(max, block, peers, services, id_layout, ops)| Case { max, block, peers, services, id_layout, ops })
            .boxed()
    }
    fn run(&self, c: &Case, obs: &mut Obs) -> Result<(), Fail> { check(c, obs) }
}

// ---------------------------------------------------------------- many peers over the layer's lifetime

#[derive(Clone, Debug, Serialize, Deserialize, PartialEq, Eq, Hash)]
pub struct ManyCase {
    pub max: u8,
    pub block: bool,
    /// distinct peers that each made one (completed) request before the probe
    pub earlier_peers: u16,
    /// how many of the earlier peers still have a request running during the probe
    pub still_running: u16,
}

fn wide_peer_id(n: u32) -> PeerId {
    let mut id = [0xA7; 32];
    id[3..7].copy_from_slice(&n.to_be_bytes());
    PeerId(id)
}

pub struct ManyPeers;
impl Part for ManyPeers {
    type Case = ManyCase;
    fn name(&self) -> &'static str { "many-peers" }
    fn rule(&self) -> &'static str {
        "0-3000 distinct peers each complete one request through the layered service (0-8, or more than a thousand, of them keep one running), then two peers never seen before: P fills its `max` slots, Q sends one request; oracle: Q's request enters the service at once (P's load does not consume Q's slots), P's next request does not, and after P's requests finish P has `max` slots again; non-trivial = at least 1000 earlier peers; distinct by case"
    }
    fn fixed_cases(&self) -> Vec<ManyCase> {
        vec![ManyCase { max: 1, block: false, earlier_peers: 1100, still_running: 0 }, ManyCase { max: 2, block: true, earlier_peers: 2100, still_running: 3 }, ManyCase { max: 1, block: false, earlier_peers: 1200, still_running: 1100 }]
    }
    fn strategy(&self, _t: Tier) -> BoxedStrategy<ManyCase> {
        (1u8..4, any::<bool>(), prop_oneof![1 => 0u16..50, 1 => 50u16..1500, 1 => 900u16..3000], prop_oneof![3 => 0u16..9, 1 => 1000u16..1300])
            .prop_map(|(max, block, earlier_peers, still_running)| ManyCase { max, block, earlier_peers, still_running })
            .boxed()
    }
    fn run(&self, case: &ManyCase, obs: &mut Obs) -> Result<(), Fail> {
        let max = case.max as usize;
        let mode = if case.block { WaitMode::Block } else { WaitMode::ReturnError };
        let shared = Arc::new(Mutex::new(Shared { max: max as i64, ..Default::default() }));
        let layer = InflightLimitLayer::new(max, mode);
        let mut svc = layer.layer(Inner(shared.clone()));
        let waker = futures::task::noop_waker();
        let mut cx = Context::from_waker(&waker);
        let rt = tokio::runtime::Builder::new_current_thread().enable_all().build().map_err(|e| Fail::Inconclusive(e.to_string()))?;
        let _enter = rt.enter();
        let drive = || rt.block_on(async { for _ in 0..4 { tokio::task::yield_now().await; } });
        let mut next_id = 0u64;
        let mut call = |svc: &mut _, who: u32, tag: u8| {
            let id = next_id;
            next_id += 1;
            let req = Request::new(Bytes::new()).with_header("id", id.to_string()).with_header("peer", tag.to_string()).with_extension(wide_peer_id(who));
            (id, Service::call(svc, req))
        };
        let mut kept = Vec::new();
        for n in 0..case.earlier_peers as u32 {
            let (id, mut fut) = call(&mut svc, n, if (n as usize) < case.still_running as usize { if n < 200 { 10 + n as u8 } else { 251 } } else { 250 }); // gauge tag: distinct for the few that keep running; the others run one at a time
            let r = fut.as_mut().poll(&mut cx);
            drive();
            vensure!(r.is_pending() && shared.lock().unwrap().invoked.contains(&id), "c18:refused-below-limit", "peer number {n} (first request ever) was not admitted");
            if (n as usize) < case.still_running as usize {
                kept.push(fut);
                continue;
            }
            let tx = shared.lock().unwrap().running.get_mut(&id).and_then(|e| e.1.take());
            if let Some(tx) = tx { let _ = tx.send(true); }
            let r = fut.as_mut().poll(&mut cx);
            drive();
            vensure!(matches!(r, Poll::Ready(Ok(_))), "c18:stuck", "released request of peer number {n} did not complete");
        }
        let (p, q) = (1_000_000u32, 1_000_001u32);
        let mut held = Vec::new();
        for k in 0..max {
            let (id, mut fut) = call(&mut svc, p, 1);
            let r = fut.as_mut().poll(&mut cx);
            drive();
            vensure!(r.is_pending() && shared.lock().unwrap().invoked.contains(&id), "c18:refused-below-limit", "new peer P after {} earlier peers: request {} of max {max} was not admitted", case.earlier_peers, k + 1);
            held.push((id, fut));
        }
        let (idq, mut fq) = call(&mut svc, q, 2);
        let rq = fq.as_mut().poll(&mut cx);
        drive();
        vensure!(shared.lock().unwrap().invoked.contains(&idq) && rq.is_pending(), "c18:other-peer-starved", "after {} earlier peers: P holds its {max} slots and a first request of another new peer Q did not enter the service ({})", case.earlier_peers,
            match &rq { Poll::Ready(Err(s)) => format!("refused with {:?}", s.status()), Poll::Ready(Ok(_)) => "completed?".into(), Poll::Pending => "still waiting".into() });
        let (idp, mut fp) = call(&mut svc, p, 1);
        let rp = fp.as_mut().poll(&mut cx);
        drive();
        vensure!(!shared.lock().unwrap().invoked.contains(&idp), "c18:over-limit", "P's request number {} entered the service (max {max})", max + 1);
        if !case.block {
            vensure!(matches!(&rp, Poll::Ready(Err(s)) if s.status() == StatusCode::TooManyRequests), "c18:wrong-status", "over-limit request not refused with TooManyRequests");
        }
        drop(fp);
        drop(held);
        drop(fq);
        drive();
        for k in 0..max {
            let (id, mut fut) = call(&mut svc, p, 1);
            let r = fut.as_mut().poll(&mut cx);
            drive();
            vensure!(r.is_pending() && shared.lock().unwrap().invoked.contains(&id), "c18:capacity-leak", "P, after its requests were dropped: only {k} of max {max} fresh requests could run");
            kept.push(fut);
        }
        if let Some(m) = shared.lock().unwrap().over_limit.clone() { vfail!("c18:over-limit", "{m}"); }
        obs.label(if case.earlier_peers >= 1024 { "earlier-peers>=1024" } else { "earlier-peers<1024" });
        obs.evals(case.earlier_peers as u64 + 2 * max as u64 + 2);
        if case.earlier_peers >= 1000 { obs.nontrivial(case); }
        Ok(())
    }
}

// ---------------------------------------------------------------- long histories of cancelled waiters

#[derive(Clone, Debug, Serialize, Deserialize, PartialEq, Eq, Hash)]
pub struct StormCase {
    pub max: u8,
    pub block: bool,
    /// requests of one peer that arrive while it is at its limit and are cancelled (while waiting, or
    /// right after being refused), one after the other
    pub cancelled: u16,
    /// every k-th of them is cancelled only after the running ones were released and re-admitted
    pub cycle: u8,
}

pub struct CancelStorm;
impl Part for CancelStorm {
    type Case = StormCase;
    fn name(&self) -> &'static str { "cancel-storm" }
    fn rule(&self) -> &'static str {
        "one peer at its limit (max 1-3 running); 0-1500 further requests arrive one after the other and are cancelled while they wait (Block) or after being refused (ReturnError), with the running ones released and replaced every few steps; oracle: throughout, a waiting request is never refused in Block mode and the gauge never exceeds max; afterwards exactly `max` fresh requests run at once (nothing leaked, nothing used up by the cancelled ones); non-trivial = at least 300 cancelled requests; distinct by case"
    }
    fn fixed_cases(&self) -> Vec<StormCase> {
        vec![StormCase { max: 1, block: true, cancelled: 700, cycle: 0 }, StormCase { max: 2, block: true, cancelled: 300, cycle: 7 }]
    }
    fn strategy(&self, _t: Tier) -> BoxedStrategy<StormCase> {
        (1u8..4, prop::bool::weighted(0.7), prop_oneof![1 => 0u16..100, 2 => 200u16..1500], 0u8..20).prop_map(|(max, block, cancelled, cycle)| StormCase { max, block, cancelled, cycle }).boxed()
    }
    fn run(&self, case: &StormCase, obs: &mut Obs) -> Result<(), Fail> {
        let max = case.max as usize;
        let mode = if case.block { WaitMode::Block } else { WaitMode::ReturnError };
        let shared = Arc::new(Mutex::new(Shared { max: max as i64, ..Default::default() }));
        let mut svc = InflightLimitLayer::new(max, mode).layer(Inner(shared.clone()));
        let waker = futures::task::noop_waker();
        let mut cx = Context::from_waker(&waker);
        let rt = tokio::runtime::Builder::new_current_thread().enable_all().build().map_err(|e| Fail::Inconclusive(e.to_string()))?;
        let _enter = rt.enter();
        let drive = || rt.block_on(async { for _ in 0..4 { tokio::task::yield_now().await; } });
        let mut next_id = 0u64;
        let mut call = |svc: &mut _| {
            let id = next_id;
            next_id += 1;
            let req = Request::new(Bytes::new()).with_header("id", id.to_string()).with_header("peer", "1").with_extension(peer_id(1, 0));
            (id, Service::call(svc, req))
        };
        let invoked = |id: u64| shared.lock().unwrap().invoked.contains(&id);
        let release = |id: u64| { let tx = shared.lock().unwrap().running.get_mut(&id).and_then(|e| e.1.take()); if let Some(tx) = tx { let _ = tx.send(true); } };
        let mut running = Vec::new();
        for k in 0..max {
            let (id, mut fut) = call(&mut svc);
            let r = fut.as_mut().poll(&mut cx);
            drive();
            vensure!(r.is_pending() && invoked(id), "c18:refused-below-limit", "request {} of max {max} was not admitted", k + 1);
            running.push((id, fut));
        }
        for n in 0..case.cancelled {
            let (id, mut fut) = call(&mut svc);
            let r = fut.as_mut().poll(&mut cx);
            drive();
            vensure!(!invoked(id), "c18:over-limit", "waiter number {n}: entered the service although {max} requests are running");
            if case.block {
                vensure!(r.is_pending(), "c18:block-refused", "Block mode: request number {n} arriving at the limit did not wait: {}", match &r { Poll::Ready(Err(s)) => format!("refused with {:?}", s.status()), _ => "completed".to_string() });
            } else {
                vensure!(matches!(&r, Poll::Ready(Err(s)) if s.status() == StatusCode::TooManyRequests), "c18:wrong-status", "over-limit request not refused with TooManyRequests");
            }
            if case.cycle > 0 && n % case.cycle as u16 == 0 && case.block {
                // let one running request finish: the waiter takes its slot, then it is cancelled while running
                let (rid, mut rf) = running.remove(0);
                release(rid);
                let done = rf.as_mut().poll(&mut cx);
                drive();
                vensure!(done.is_ready(), "c18:stuck", "released request did not complete");
                let r2 = fut.as_mut().poll(&mut cx);
                drive();
                vensure!(r2.is_pending() && invoked(id), "c18:capacity-leak", "waiter number {n} was not admitted after a running request finished");
                running.push((id, fut));
                continue;
            }
            drop(fut);
            drive();
        }
        if let Some(m) = shared.lock().unwrap().over_limit.clone() { vfail!("c18:over-limit", "{m}"); }
        // release everything; then exactly max fresh requests run
        for (rid, mut rf) in running.drain(..) {
            release(rid);
            let _ = rf.as_mut().poll(&mut cx);
            drive();
        }
        let mut fresh = Vec::new();
        for k in 0..=max {
            let (id, mut fut) = call(&mut svc);
            let r = fut.as_mut().poll(&mut cx);
            drive();
            if k < max {
                vensure!(r.is_pending() && invoked(id), "c18:capacity-leak", "after {} cancelled waiters only {k} of max {max} fresh requests could run ({})", case.cancelled, match &r { Poll::Ready(Err(s)) => format!("refused with {:?}", s.status()), Poll::Ready(Ok(_)) => "completed".into(), Poll::Pending => "waiting".into() });
            } else {
                vensure!(!invoked(id), "c18:over-limit", "request {} of max {max} entered the service", k + 1);
                if case.block { vensure!(r.is_pending(), "c18:block-refused", "Block mode: after {} cancelled waiters a request arriving at the limit was refused instead of waiting", case.cancelled); }
            }
            fresh.push(fut);
        }
        obs.evals(case.cancelled as u64 + 2 * max as u64 + 1);
        obs.label(if case.block { "mode:block" } else { "mode:return-error" });
        if case.cancelled >= 300 { obs.nontrivial(case); }
        Ok(())
    }
}

// ---------------------------------------------------------------- first requests of a peer arriving on several threads at once

#[derive(Clone, Debug, Serialize, Deserialize, PartialEq, Eq, Hash)]
pub struct FirstContact {
    pub max: u8,
    pub threads: u8,
    pub rounds: u16,
    pub block: bool,
}

pub struct FirstContactRace;
impl Part for FirstContactRace {
    type Case = FirstContact;
    fn name(&self) -> &'static str { "first-contact-race" }
    fn deterministic(&self) -> bool { false }
    fn rule(&self) -> &'static str {
        "per round a peer the layer has never seen; 2-8 OS threads released by a barrier each hand one request of that peer to a clone of the layered service and poll it once; the requests stay in the service; oracle: the number of that peer's requests inside the service never exceeds max (1-3); real threads, sampled interleavings; non-trivial = every case; distinct by case"
    }
    fn strategy(&self, _t: Tier) -> BoxedStrategy<FirstContact> {
        (1u8..4, 2u8..9, 100u16..600, any::<bool>()).prop_map(|(max, threads, rounds, block)| FirstContact { max, threads, rounds, block }).boxed()
    }
    fn run(&self, c: &FirstContact, obs: &mut Obs) -> Result<(), Fail> {
        let max = c.max as usize;
        let mode = if c.block { WaitMode::Block } else { WaitMode::ReturnError };
        let shared = Arc::new(Mutex::new(Shared { max: max as i64, ..Default::default() }));
        let svc = InflightLimitLayer::new(max, mode).layer(Inner(shared.clone()));
        for round in 0..c.rounds as u32 {
            let barrier = Arc::new(std::sync::Barrier::new(c.threads as usize));
            let handles: Vec<_> = (0..c.threads).map(|t| {
                let (mut svc, barrier) = (svc.clone(), barrier.clone());
                std::thread::spawn(move || {
                    let waker = futures::task::noop_waker();
                    let mut cx = Context::from_waker(&waker);
                    let id = round as u64 * 16 + t as u64;
                    // the gauge is per tag: one tag per round (= per fresh peer)
                    let req = Request::new(Bytes::new()).with_header("id", id.to_string()).with_header("peer", (round % 200).to_string()).with_extension(wide_peer_id(5_000_000 + round));
                    barrier.wait();
                    let mut fut = Service::call(&mut svc, req);
                    let _ = fut.as_mut().poll(&mut cx);
                    fut
                })
            }).collect();
            let futs: Vec<_> = handles.into_iter().filter_map(|h| h.join().ok()).collect();
            let over = shared.lock().unwrap().over_limit.clone();
            if let Some(m) = over { vfail!("c18:over-limit", "round {round}: {} threads handed the first requests of a new peer to the service at the same time: {m}", c.threads); }
            drop(futs);
            // the tag is reused 200 rounds later: by then the gauge is back to zero
        }
        obs.evals(c.rounds as u64 * c.threads as u64);
        obs.nontrivial(c);
        Ok(())
    }
}

// ---------------------------------------------------------------- behind a real network: slots of a connection that is lost

#[derive(Clone, Debug, Serialize, Deserialize, PartialEq, Eq, Hash)]
pub struct NetCase {
    pub max: u8,
    /// how the connection with requests in flight ends: 0 = the caller disconnects, 1 = the caller's
    /// network shuts down and a new one with the same identity comes back, 2 = the serving side disconnects
    pub how: u8,
}

#[derive(Clone, Default)]
struct SlowEcho(Arc<Mutex<u32>>);

#[anemo::async_trait]
impl crate::props::c17::s1::echo_server::Echo for SlowEcho {
    async fn ping(&self, r: Request<crate::props::c17::Msg>) -> Result<Response<crate::props::c17::Msg>, Status> {
        if r.body().text == "hang" {
            *self.0.lock().unwrap() += 1;
            futures::future::pending::<()>().await;
        }
        Ok(Response::new(r.body().clone()))
    }
    async fn ping_pong(&self, r: Request<crate::props::c17::Msg>) -> Result<Response<crate::props::c17::Msg>, Status> { Ok(Response::new(r.body().clone())) }
    async fn pin(&self, r: Request<crate::props::c17::Msg>) -> Result<Response<crate::props::c17::Msg>, Status> { Ok(Response::new(r.body().clone())) }
    async fn raw(&self, _r: Request<crate::props::c17::Msg>) -> Result<Response<Bytes>, Status> { Ok(Response::new(Bytes::new())) }
}

pub struct OverNetwork;
impl Part for OverNetwork {
    type Case = NetCase;
    fn name(&self) -> &'static str { "over-network" }
    fn rule(&self) -> &'static str {
        "a generated rpc server whose `ping` method sits behind InflightLimitLayer(max 1-3, ReturnError), served by a network on the fabric; a peer fills its slots with requests that never finish, one more is refused with TooManyRequests, then the connection ends with those requests in flight (caller disconnects / caller shuts down and comes back with the same identity / server disconnects) and the peer connects again; oracle: after the reconnect the peer has all its slots again (a fresh request is served); non-trivial = every case; distinct by case"
    }
    fn strategy(&self, _t: Tier) -> BoxedStrategy<NetCase> {
        (1u8..4, 0u8..3).prop_map(|(max, how)| NetCase { max, how }).boxed()
    }
    fn run(&self, c: &NetCase, obs: &mut Obs) -> Result<(), Fail> {
        use crate::props::c17::{s1, Msg};
        use crate::simnet::*;
        let c = c.clone();
        run_sim(47, 1, |sim| async move {
            let slow = SlowEcho::default();
            let server = s1::echo_server::EchoServer::new(slow.clone())
                .add_layer_for_ping(anemo::codegen::InboundRequestLayer::new(InflightLimitLayer::new(c.max as usize, WaitMode::ReturnError)));
            let sspec = NodeSpec::new(0);
            let s = sim.start_node(&sspec, anemo::Router::new().add_rpc_service(server)).map_err(|e| Fail::Inconclusive(e.to_string()))?;
            let cspec = NodeSpec::new(1);
            let mut client = sim.node_with(cspec.clone())?;
            let s_addr = sspec.addr;
            let connect = move |net: anemo::Network| async move {
                match within(20_000, net.connect(s_addr)).await { Ok(Ok(_)) => Ok(()), _ => Err(Fail::Inconclusive("connect failed".into())) }
            };
            connect(client.net.clone()).await?;
            let s_id = s.peer_id();
            let call = move |net: anemo::Network, text: &'static str| async move {
                let peer = net.peer(s_id).ok_or_else(|| "no peer".to_string())?;
                let mut cl = s1::echo_client::EchoClient::new(peer);
                cl.ping(Msg { id: 1, text: text.into(), blob: vec![], poison: Default::default() }).await.map(|_| ()).map_err(|st| format!("{:?}", st.status()))
            };
            let mut hanging = Vec::new();
            for _ in 0..c.max {
                hanging.push(tokio::spawn(call(client.net.clone(), "hang")));
            }
            for _ in 0..200 { if *slow.0.lock().unwrap() >= c.max as u32 { break; } sleep_ms(5).await; }
            vensure!(*slow.0.lock().unwrap() == c.max as u32, "c18:refused-below-limit", "only {} of max {} requests entered the handler", *slow.0.lock().unwrap(), c.max);
            match within(5_000, call(client.net.clone(), "ok")).await {
                Ok(Err(e)) if e.contains("TooManyRequests") => {}
                other => vfail!("c18:over-limit", "with {} requests of the peer in the handler, one more was not refused with TooManyRequests: {:?}", c.max, other),
            }
            // the connection ends with the requests in flight
            match c.how % 3 {
                0 => { let _ = client.net.disconnect(s.peer_id()); }
                1 => {
                    let _ = within(5_000, client.net.shutdown()).await;
                    for _ in 0..100 { if !sim.fabric.is_bound(cspec.addr) { break; } sleep_ms(20).await; }
                    client = sim.node_with(cspec.clone())?;
                }
                _ => { let _ = s.disconnect(client.id()); }
            }
            for h in hanging { h.abort(); }
            sleep_ms(300).await;
            connect(client.net.clone()).await?;
            for k in 0..c.max {
                match within(5_000, call(client.net.clone(), "ok")).await {
                    Ok(Ok(())) => {}
                    other => vfail!("c18:capacity-leak", "after its connection ended with {} requests in flight ({}), the peer reconnected and request number {} was not served: {:?}", c.max, ["the caller disconnected", "the caller restarted", "the server disconnected it"][c.how as usize % 3], k + 1, other),
                }
            }
            sim.health()?;
            check_no_panics("limiter behind a network")?;
            obs.evals(2 * c.max as u64 + 1);
            obs.nontrivial(&c);
            Ok(())
        })
    }
}

pub fn run(tier: Tier) -> i32 {
    let mut ctx = Ctx::new("C18", tier);
    ctx.assume("tokio's Semaphore and dashmap are trusted; the harness owns every poll of the request futures (no-op waker), so interleavings are generated, not sampled; a tokio context is present and tasks the implementation may spawn are run to quiescence after every step");
    ctx.run_part(Histories, tier.pick(40_000, 20_000_000));
    ctx.run_part(ManyPeers, tier.pick(300, 60_000));
    ctx.run_part(CancelStorm, tier.pick(400, 60_000));
    ctx.run_part_threads(FirstContactRace, tier.pick(24, 400), 2);
    ctx.run_part(OverNetwork, tier.pick(60, 600));
    ctx.finish()
}
