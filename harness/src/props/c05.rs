//! C05 — simultaneous mutual dials converge on one shared connection.

use crate::core::*;
use crate::refmodel::peerset::{self, Event};
use crate::simnet::bed::{bed_endpoint, connect_pair};
use crate::simnet::*;
use crate::{vensure, vfail};
use anemo::types::{DisconnectReason, PeerEvent};
use anemo::verif::active_peers::{tie_break, ActivePeersDriver};
use anemo::{ConnectionOrigin, PeerId};
use proptest::prelude::*;
use serde::{Deserialize, Serialize};

// ============================================================ (i) the decision itself, all orders

#[derive(Clone, Debug, Serialize, Deserialize, PartialEq, Eq, Hash)]
pub struct IdPair {
    pub a: [u8; 32],
    pub b: [u8; 32],
}

/// Which connection survives at a node that registers `first` then `second`.
/// Connections are named by their dialer: 'A' = dialed by a, 'B' = dialed by b.
fn survivor(own: &PeerId, remote: &PeerId, own_is_a: bool, first: char, second: char) -> char {
    let origin = |c: char| if (c == 'A') == own_is_a { ConnectionOrigin::Outbound } else { ConnectionOrigin::Inbound };
    if tie_break(own, remote, origin(first), origin(second)) { second } else { first }
}

pub struct Decision;
impl Part for Decision {
    type Case = IdPair;
    fn name(&self) -> &'static str { "tie-break" }
    fn rule(&self) -> &'static str {
        "pairs of distinct identities (random, sharing long prefixes, differing in one byte, adjacent values) x all four combinations of arrival order at A and at B (enumerated); oracle: both sides keep the same connection, it is the one dialed by the greater id, independent of arrival order; a repeated dial in the same direction replaces the older connection; non-trivial = every pair; distinct by pair"
    }
    fn strategy(&self, _t: Tier) -> BoxedStrategy<IdPair> {
        prop_oneof![
            3 => (any::<[u8; 32]>(), any::<[u8; 32]>()).prop_map(|(a, b)| IdPair { a, b }),
            3 => (any::<[u8; 32]>(), 0usize..32, 1u8..=255).prop_map(|(a, i, x)| { let mut b = a; b[i] ^= x; IdPair { a, b } }),
            1 => (any::<[u8; 32]>(), 0usize..32).prop_map(|(a, i)| { let mut b = a; b[i] = b[i].wrapping_add(1); IdPair { a, b } }),
            1 => (any::<u8>(), any::<u8>()).prop_map(|(x, y)| IdPair { a: [x; 32], b: [y; 32] }),
        ]
        .prop_filter("identities must be distinct", |p| p.a != p.b)
        .boxed()
    }
    fn run(&self, p: &IdPair, obs: &mut Obs) -> Result<(), Fail> {
        let (a, b) = (PeerId(p.a), PeerId(p.b));
        let want = if p.a > p.b { 'A' } else { 'B' };
        for order_at_a in [('A', 'B'), ('B', 'A')] {
            for order_at_b in [('A', 'B'), ('B', 'A')] {
                let sa = survivor(&a, &b, true, order_at_a.0, order_at_a.1);
                let sb = survivor(&b, &a, false, order_at_b.0, order_at_b.1);
                vensure!(sa == sb, "c05:sides-disagree", "ids a={a} b={b}: with arrival order {:?} at A and {:?} at B, A keeps the connection dialed by {sa} and B keeps the one dialed by {sb}", order_at_a, order_at_b);
                vensure!(sa == want, "c05:wrong-survivor", "ids a={a} b={b}: survivor is the connection dialed by {sa}; the greater id is {want}");
                obs.evals(1);
            }
        }
        // same direction dialed twice: the newer replaces the older on both sides
        for (own, remote) in [(&a, &b), (&b, &a)] {
            vensure!(tie_break(own, remote, ConnectionOrigin::Inbound, ConnectionOrigin::Inbound) && tie_break(own, remote, ConnectionOrigin::Outbound, ConnectionOrigin::Outbound),
                "c05:redial-not-replacing", "a second connection in the same direction does not replace the first");
        }
        obs.nontrivial(p);
        Ok(())
    }
}

// ============================================================ (ii) both sides driven with real connections

#[derive(Clone, Debug, Serialize, Deserialize, PartialEq, Eq, Hash)]
pub enum Step {
    /// side (false = A, true = B) registers its end of connection (false = dialed by A, true = dialed by B)
    Register { side_b: bool, conn_b: bool },
    /// side notices that its end of that connection is closed (its handler exits)
    Notice { side_b: bool, conn_b: bool },
}

#[derive(Clone, Debug, Serialize, Deserialize, PartialEq, Eq, Hash)]
pub struct BothSides {
    pub key_a: u8,
    pub key_b: u8,
    /// a permutation prefix: the four Register steps appear in this order, Notice steps are interleaved
    pub order: Vec<u8>,
}

pub fn both_sides(case: &BothSides, obs: &mut Obs) -> Result<(), Fail> {
    if case.key_a == case.key_b {
        return Ok(());
    }
    let case = case.clone();
    run_sim(61, 1, |sim| async move {
        let ea = bed_endpoint(&sim.fabric, 0, 700 + case.key_a as u64).map_err(|e| Fail::Inconclusive(e.to_string()))?;
        let eb = bed_endpoint(&sim.fabric, 1, 700 + case.key_b as u64).map_err(|e| Fail::Inconclusive(e.to_string()))?;
        // c[0] dialed by A: (A's end, B's end); c[1] dialed by B: (A's end, B's end)
        let (a0, b0) = connect_pair(&ea, &eb).await.map_err(|e| Fail::Inconclusive(e.to_string()))?;
        let (b1, a1) = connect_pair(&eb, &ea).await.map_err(|e| Fail::Inconclusive(e.to_string()))?;
        let ends = [[a0, b0], [a1, b1]]; // ends[conn][side]
        let drivers = [ActivePeersDriver::new(ea.id, 64), ActivePeersDriver::new(eb.id, 64)];
        let ids = [ea.id, eb.id];
        let mut rx = [drivers[0].subscribe().0, drivers[1].subscribe().0];
        let mut stable = [[0usize; 2]; 2]; // [conn][side]
        let mut registered = [[false; 2]; 2];
        // build the schedule: 4 registrations in generated order, a Notice opportunity after each step
        let mut regs = vec![(false, false), (false, true), (true, false), (true, true)];
        let mut schedule = Vec::new();
        for (k, pick) in case.order.iter().enumerate() {
            if !regs.is_empty() && k % 2 == 0 {
                let r = regs.remove(*pick as usize % regs.len());
                schedule.push(Step::Register { side_b: r.0, conn_b: r.1 });
            } else {
                schedule.push(Step::Notice { side_b: pick & 1 == 1, conn_b: pick & 2 == 2 });
            }
        }
        for r in regs {
            schedule.push(Step::Register { side_b: r.0, conn_b: r.1 });
        }
        let mut both_registered_before_break = false;
        for st in &schedule {
            match st {
                Step::Register { side_b, conn_b } => {
                    let (s, c) = (*side_b as usize, *conn_b as usize);
                    let origin = if c == s { ConnectionOrigin::Outbound } else { ConnectionOrigin::Inbound };
                    if drivers[s].get(&ids[1 - s]).is_some() { both_registered_before_break = true; }
                    let (pid, sid, _kept) = drivers[s].add(ends[c][s].clone(), origin).map_err(|e| Fail::violation("c05:add-failed", e.to_string()))?;
                    vensure!(pid == ids[1 - s], "c05:wrong-peer-id", "connection attributed to {pid}");
                    stable[c][s] = sid;
                    registered[c][s] = true;
                    sleep_ms(5).await; // closes travel to the other end
                }
                Step::Notice { side_b, conn_b } => {
                    let (s, c) = (*side_b as usize, *conn_b as usize);
                    if registered[c][s] && ends[c][s].close_reason().is_some() {
                        drivers[s].remove_with_stable_id(ids[1 - s], stable[c][s], DisconnectReason::ConnectionClosed);
                    }
                }
            }
        }
        // quiet: every end that is closed gets noticed by its handler
        sleep_ms(50).await;
        for s in 0..2 {
            for c in 0..2 {
                if ends[c][s].close_reason().is_some() {
                    drivers[s].remove_with_stable_id(ids[1 - s], stable[c][s], DisconnectReason::ConnectionClosed);
                }
            }
        }
        let want_conn = if ids[0].0 > ids[1].0 { 0 } else { 1 }; // dialed by the greater id
        for s in 0..2 {
            let got = drivers[s].get(&ids[1 - s]);
            vensure!(got.is_some(), "c05:no-connection-left", "side {} ends with no connection to the other (schedule {:?}, a={} b={})", ["A", "B"][s], schedule, ids[0], ids[1]);
            vensure!(got.unwrap().0 == stable[want_conn][s], "c05:wrong-survivor", "side {} keeps the connection dialed by {}, the greater id dialed the other one (schedule {:?})", ["A", "B"][s], if got.unwrap().0 == stable[0][s] { "A" } else { "B" }, schedule);
            vensure!(ends[want_conn][s].close_reason().is_none(), "c05:survivor-closed", "the surviving connection is closed at side {} (schedule {:?})", ["A", "B"][s], schedule);
            vensure!(ends[1 - want_conn][s].close_reason().is_some(), "c05:loser-open", "the losing connection is still open at side {} (schedule {:?})", ["A", "B"][s], schedule);
            let mut ev = Vec::new();
            while let Ok(e) = rx[s].try_recv() {
                ev.push(match e { PeerEvent::NewPeer(p) => Event::New(p.0), PeerEvent::LostPeer(p, _) => Event::Lost(p.0) });
            }
            match peerset::replay(&[], &ev) {
                Ok(l) => vensure!(l == vec![ids[1 - s].0], "c05:events", "side {}: events leave {:?} listed", ["A", "B"][s], l.len()),
                Err(e) => vfail!("c05:events", "side {}: {e} (schedule {:?})", ["A", "B"][s], schedule),
            }
        }
        if both_registered_before_break { obs.label("second-connection-met-a-registered-one"); }
        obs.nontrivial(&case);
        Ok(())
    })
}

pub struct BothSidesPart;
impl Part for BothSidesPart {
    type Case = BothSides;
    fn name(&self) -> &'static str { "both-sides" }
    fn rule(&self) -> &'static str {
        "two real connections A->B and B->A between raw endpoints with anemo's TLS configs; each side's active-peer set (hook H6) registers its two ends in every order, with close notifications (remove_with_stable_id once the local end is seen closed) interleaved at generated points; oracle: after quiescence both sides hold the connection dialed by the greater id, it is open, the other is closed, each side's events leave exactly the other listed and alternate; non-trivial = every case; distinct by (keys, schedule)"
    }
    fn strategy(&self, _t: Tier) -> BoxedStrategy<BothSides> {
        (0u8..12, 0u8..12, prop::collection::vec(any::<u8>(), 4..12)).prop_map(|(key_a, key_b, order)| BothSides { key_a, key_b, order }).boxed()
    }
    fn run(&self, c: &BothSides, obs: &mut Obs) -> Result<(), Fail> { both_sides(c, obs) }
}

// ============================================================ (iii) whole networks

#[derive(Clone, Debug, Serialize, Deserialize, PartialEq, Eq, Hash)]
pub struct NetCase {
    pub key_a: u8,
    pub key_b: u8,
    /// B starts dialing this many ms after A (negative: before)
    pub offset_ms: i16,
    /// one-way delays A->B and B->A
    pub delay_ab_ms: u16,
    pub delay_ba_ms: u16,
    /// also let the background dialer of each side know the other as High-affinity
    pub known_peers: bool,
    pub loss: Vec<FaultSeg>,
    pub fault_seed: u64,
    /// max_concurrent_outstanding_connecting_connections on both nodes (a legal, unusual setting)
    #[serde(default)]
    pub outstanding_cap: Option<u8>,
}

pub fn net_case(case: &NetCase, obs: &mut Obs) -> Result<(), Fail> {
    net_case_clock(case, obs, true)
}

pub fn net_case_clock(case: &NetCase, obs: &mut Obs, virtual_time: bool) -> Result<(), Fail> {
    if case.key_a == case.key_b {
        return Ok(());
    }
    let case = case.clone();
    run_sim_clock(case.fault_seed, 1, virtual_time, |sim| async move {
        let idle = if virtual_time { 5_000u64.max(6 * (case.delay_ab_ms.max(case.delay_ba_ms) as u64)) } else { 2_500 };
        let spec = |i: u8, key: u8| {
            let mut s = NodeSpec::new(i);
            s.key = key_seed(800 + key as u64);
            let q = s.config.quic.as_mut().unwrap();
            q.keep_alive_interval_ms = Some(if virtual_time { 1_000 } else { 600 });
            q.max_idle_timeout_ms = Some(idle);
            s.config.max_concurrent_outstanding_connecting_connections = case.outstanding_cap.map(|c| c as usize);
            s.config.connectivity_check_interval_ms = Some(2_000);
            s.config.connection_backoff_ms = Some(1_000);
            s.config.max_connection_backoff_ms = Some(2_000);
            s
        };
        let a = sim.node_with(spec(0, case.key_a))?;
        let b = sim.node_with(spec(1, case.key_b))?;
        // asymmetric one-way delays
        sim.fabric.add_fault(FaultSeg { t0_ms: 0, t1_ms: u64::MAX / 2, from: Some(0), to: Some(1), delay_ms: (case.delay_ab_ms as u32, case.delay_ab_ms as u32), ..Default::default() });
        sim.fabric.add_fault(FaultSeg { t0_ms: 0, t1_ms: u64::MAX / 2, from: Some(1), to: Some(0), delay_ms: (case.delay_ba_ms as u32, case.delay_ba_ms as u32), ..Default::default() });
        for f in &case.loss { sim.fabric.add_fault(f.clone()); }
        let (mut rxa, _) = a.net.subscribe().map_err(|e| Fail::Inconclusive(e.to_string()))?;
        let (mut rxb, _) = b.net.subscribe().map_err(|e| Fail::Inconclusive(e.to_string()))?;
        if case.known_peers {
            use anemo::types::{PeerAffinity, PeerInfo};
            a.net.known_peers().insert(PeerInfo { peer_id: b.id(), affinity: PeerAffinity::High, address: vec![b.addr().into()] });
            b.net.known_peers().insert(PeerInfo { peer_id: a.id(), affinity: PeerAffinity::High, address: vec![a.addr().into()] });
        }
        if std::env::var_os("VERIF_VERBOSE").is_some() {
            for (name, net) in [("A", a.net.clone()), ("B", b.net.clone())] {
                let (mut rx, _) = net.subscribe().unwrap();
                let fabric = sim.fabric.clone();
                tokio::spawn(async move {
                    while let Ok(e) = rx.recv().await {
                        eprintln!("[{:>6} ms] {name}: {e:?}", fabric.now_ms());
                    }
                });
            }
        }
        let (na, nb) = (a.net.clone(), b.net.clone());
        let (addr_a, addr_b) = (a.addr(), b.addr());
        let off = case.offset_ms;
        let da = tokio::spawn(async move { if off < 0 { sleep_ms((-off) as u64).await; } within(30_000, na.connect(addr_b)).await });
        let db = tokio::spawn(async move { if off > 0 { sleep_ms(off as u64).await; } within(30_000, nb.connect(addr_a)).await });
        let (ra, rb) = (da.await.unwrap(), db.await.unwrap());
        if std::env::var_os("VERIF_VERBOSE").is_some() {
            eprintln!("[{:>6} ms] dial results: A {:?} B {:?}", sim.fabric.now_ms(), ra.as_ref().map(|r| r.as_ref().map(|_| ()).map_err(|e| e.to_string())), rb.as_ref().map(|r| r.as_ref().map(|_| ()).map_err(|e| e.to_string())));
        }
        let both_ok = matches!(ra, Ok(Ok(_))) && matches!(rb, Ok(Ok(_)));
        vensure!(ra.is_ok() && rb.is_ok(), "c05:dial-hang", "a dial did not return within 30 virtual seconds");
        if !both_ok {
            // A dial may legitimately fail: the other side refuses the connection that loses the
            // tie-break, sometimes before the dialer's handshake is through. What must not happen
            // without loss is that the pair ends up unconnected, so only lossy cases are set aside.
            if !case.loss.is_empty() {
                obs.label("discarded:a-dial-failed-under-loss");
                return Ok(());
            }
            obs.label("a-dial-failed-without-loss");
        }
        // Wait until the network is quiet: faults are over and neither side has announced anything
        // for a whole window. A close packet lost to the fault script is only noticed through the
        // idle timeout, and (with background dialing) a refused re-dial is retried after its
        // backoff, so the window is idle timeout + backoff + one check interval.
        let window = if virtual_time || case.known_peers { idle + 2_000 + 2_000 + 4 * (case.delay_ab_ms + case.delay_ba_ms) as u64 } else { idle + 500 };
        let faults_end = case.loss.iter().map(|f| f.t1_ms).max().unwrap_or(0);
        let mut seen = (0usize, 0usize);
        let mut last_change = sim.now_ms();
        loop {
            sleep_ms(250).await;
            let now = sim.now_ms();
            let cur = (rxa.len(), rxb.len());
            if cur != seen {
                seen = cur;
                last_change = now;
            }
            if now >= faults_end + window && now - last_change >= window {
                break;
            }
            vensure!(now < 300_000, "c05:never-quiet", "the pair keeps connecting/disconnecting: {} events at A and {} at B after 300 virtual seconds (a={} b={} offset {} ms, delays {}/{} ms, known_peers={})", cur.0, cur.1, a.id(), b.id(), case.offset_ms, case.delay_ab_ms, case.delay_ba_ms, case.known_peers);
        }
        let collect = |rx: &mut tokio::sync::broadcast::Receiver<PeerEvent>| {
            let mut v = Vec::new();
            while let Ok(e) = rx.try_recv() { v.push(match e { PeerEvent::NewPeer(p) => Event::New(p.0), PeerEvent::LostPeer(p, _) => Event::Lost(p.0) }); }
            v
        };
        let (eva, evb) = (collect(&mut rxa), collect(&mut rxb));
        let describe = format!("a={} b={} offset {} ms, delays {}/{} ms, known_peers={}, events at A {:?}, at B {:?}", a.id(), b.id(), case.offset_ms, case.delay_ab_ms, case.delay_ba_ms, case.known_peers, eva.len(), evb.len());
        vensure!(a.net.peers() == vec![b.id()], "c05:not-converged", "once quiet A lists {:?} instead of exactly B ({describe})", a.net.peers());
        vensure!(b.net.peers() == vec![a.id()], "c05:not-converged", "once quiet B lists {:?} instead of exactly A ({describe})", b.net.peers());
        for (who, ev, other) in [("A", &eva, b.id()), ("B", &evb, a.id())] {
            match peerset::replay(&[], ev) {
                Ok(l) => vensure!(l == vec![other.0], "c05:events", "{who}: events leave {} peers listed ({describe})", l.len()),
                Err(e) => vfail!("c05:events", "{who}: {e} ({describe})"),
            }
        }
        // RPCs succeed in both directions
        for (x, y, dir) in [(&a, &b, "A->B"), (&b, &a, "B->A")] {
            let ctl = Ctl { id: 1, delay_ms: 0, status_idx: 0, resp_len: 8, resp_hdrs: 0, mode: 0 };
            match within(10_000, x.net.rpc(y.id(), ctl_request("/c05", &[], &ctl, 40))).await {
                Ok(Ok(r)) if r.status().to_u16() == 200 => {}
                other => vfail!("c05:rpc-failed", "{dir} RPC failed once quiet: {:?} ({describe})", other.map(|r| r.map(|x| x.status().to_u16()).map_err(|e| e.to_string()))),
            }
        }
        // and nothing else happens for the pair during the next three idle timeouts
        sleep_ms(if virtual_time { 3 * idle } else { idle + 500 }).await;
        let (late_a, late_b) = (collect(&mut rxa), collect(&mut rxb));
        vensure!(late_a.is_empty() && late_b.is_empty(), "c05:late-events", "further connect/disconnect events after the network went quiet: at A {:?}, at B {:?} ({describe})", late_a.len(), late_b.len());
        vensure!(a.net.peers() == vec![b.id()] && b.net.peers() == vec![a.id()], "c05:not-converged", "listing changed during the quiet period ({describe})");
        sim.health()?;
        check_no_panics("during simultaneous dials")?;
        let replaced = eva.len() > 1 || evb.len() > 1;
        if replaced { obs.label("both-connections-met-at-some-side(Lost+New seen)"); }
        obs.label(if a.id().0 > b.id().0 { "A-greater" } else { "B-greater" });
        if replaced || (case.offset_ms.unsigned_abs() as u64) < 2 * (case.delay_ab_ms + case.delay_ba_ms) as u64 + 10 {
            obs.nontrivial(&case);
        }
        Ok(())
    })
}

pub struct Networks;
impl Part for Networks {
    type Case = NetCase;
    fn name(&self) -> &'static str { "networks" }
    fn rule(&self) -> &'static str {
        "two networks: A.connect(B) and B.connect(A) with a generated start offset (+-1.5 s), independent one-way delays 1-600 ms each way (so either connection can complete first at either side, and closes can arrive late), optionally both also High-affinity known peers of each other, optionally max_concurrent_outstanding_connecting_connections of 1-3 on both, optional loss bursts (<=2 s); keep-alive 1 s, idle timeout >= 5 s; a dial that returns Err is accepted (the loser may be refused early) but, unless loss was injected, the pair must still converge; oracle once quiet: each lists the other exactly once, events alternate and leave the other listed, RPCs succeed both ways, and no further event occurs during the next 3 idle timeouts; non-trivial = the two dials overlapped in time or a replacement (Lost+New) was observed; distinct by case"
    }
    fn strategy(&self, _t: Tier) -> BoxedStrategy<NetCase> {
        let delay = || prop_oneof![3 => 1u16..40, 2 => 40u16..200, 1 => 200u16..600];
        let loss = (0u64..500, 50u64..2000, 50u16..400).prop_map(|(t0, len, loss_pm)| FaultSeg { t0_ms: t0, t1_ms: t0 + len, loss_pm, ..Default::default() });
        (0u8..12, 0u8..12, prop_oneof![3 => -60i16..60, 2 => -1500i16..1500, 1 => Just(0i16)], delay(), delay(), prop::bool::weighted(0.3), prop::collection::vec(loss, 0..2), any::<u64>(), prop_oneof![4 => Just(None), 1 => (1u8..4).prop_map(Some)])
            .prop_map(|(key_a, key_b, offset_ms, delay_ab_ms, delay_ba_ms, known_peers, loss, fault_seed, outstanding_cap)| NetCase { key_a, key_b, offset_ms, delay_ab_ms, delay_ba_ms, known_peers, loss, fault_seed, outstanding_cap })
            .boxed()
    }
    fn run(&self, c: &NetCase, obs: &mut Obs) -> Result<(), Fail> { net_case(c, obs) }
}

/// The same scenario in REAL time (a handful of cases): code that measures connection age with
/// `std::time::Instant` is invisible to the paused clock.
pub struct NetworksRealTime;
impl Part for NetworksRealTime {
    type Case = NetCase;
    fn name(&self) -> &'static str { "networks-realtime" }
    fn deterministic(&self) -> bool { false }
    fn rule(&self) -> &'static str {
        "the [networks] scenario executed in REAL time (unpaused clock; one-way delays 250-1200 ms each way so that the two handshakes and the tie-break are seconds apart, offsets within +-300 ms or up to +-3 s (the later dial meets a connection that has been up for seconds), no loss, idle timeout 2.5 s): same convergence oracle (quiet period shortened to one idle timeout); exists because the library reads std::time::Instant in places, which virtual time cannot drive; non-trivial = every case; distinct by case"
    }
    fn strategy(&self, _t: Tier) -> BoxedStrategy<NetCase> {
        // offsets of seconds: the later dial then meets a connection that has been registered for a while
        let delay = || prop_oneof![2 => 250u16..600, 1 => 600u16..1200];
        (0u8..12, 0u8..12, prop_oneof![1 => -300i16..300, 1 => -3000i16..3000, 1 => prop_oneof![-3000i16..-2200, 2200i16..3000]], delay(), delay(), any::<u64>())
            .prop_map(|(key_a, key_b, offset_ms, delay_ab_ms, delay_ba_ms, fault_seed)| NetCase { key_a, key_b, offset_ms, delay_ab_ms, delay_ba_ms, known_peers: false, loss: vec![], fault_seed, outstanding_cap: None })
            .boxed()
    }
    fn run(&self, c: &NetCase, obs: &mut Obs) -> Result<(), Fail> {
        let r = net_case_clock(c, obs, false);
        if r.is_ok() && c.key_a != c.key_b { obs.nontrivial(c); }
        r
    }
}

// ============================================================ (v) close notice racing the winner's registration (real threads)

#[derive(Clone, Debug, Serialize, Deserialize, PartialEq, Eq, Hash)]
pub struct RaceCase {
    pub key_a: u8,
    pub key_b: u8,
    pub rounds: u16,
}

pub struct CloseNoticeRace;
impl Part for CloseNoticeRace {
    type Case = RaceCase;
    fn name(&self) -> &'static str { "close-notice-race" }
    fn deterministic(&self) -> bool { false }
    fn rule(&self) -> &'static str {
        "one side's active-peer set (hook H6) with the two real connections of a mutual dial; per round: the losing connection is registered, then on two OS threads released by a barrier the winning connection is added while the loser's handler reports its end (remove_with_stable_id with the loser's id); oracle: whichever order the two calls take effect in, the set ends up holding the winner (the end of a replaced connection never removes its replacement); real threads: interleavings are sampled, with the relative start of the two calls steered towards their crossover by bisection on which one finished first; non-trivial = every case; distinct by case"
    }
    fn strategy(&self, _t: Tier) -> BoxedStrategy<RaceCase> {
        (0u8..12, 0u8..12, 300u16..3000).prop_map(|(key_a, key_b, rounds)| RaceCase { key_a, key_b, rounds }).boxed()
    }
    fn run(&self, case: &RaceCase, obs: &mut Obs) -> Result<(), Fail> {
        if case.key_a == case.key_b { return Ok(()); }
        let case = case.clone();
        run_sim(63, 1, |sim| async move {
            let ea = bed_endpoint(&sim.fabric, 0, 700 + case.key_a as u64).map_err(|e| Fail::Inconclusive(e.to_string()))?;
            let eb = bed_endpoint(&sim.fabric, 1, 700 + case.key_b as u64).map_err(|e| Fail::Inconclusive(e.to_string()))?;
            let (a_out, _b0) = connect_pair(&ea, &eb).await.map_err(|e| Fail::Inconclusive(e.to_string()))?;
            let (_b1, a_in) = connect_pair(&eb, &ea).await.map_err(|e| Fail::Inconclusive(e.to_string()))?;
            // at A: the rule keeps the connection dialed by the greater id
            let a_greater = ea.id.0 > eb.id.0;
            let (winner, w_origin, loser, l_origin) = if a_greater { (a_out, ConnectionOrigin::Outbound, a_in, ConnectionOrigin::Inbound) } else { (a_in, ConnectionOrigin::Inbound, a_out, ConnectionOrigin::Outbound) };
            let mut removed_winner = 0u32;
            let (mut skew, mut step): (i64, i64) = (0, 4_000);
            for round in 0..case.rounds {
                let driver = ActivePeersDriver::new(ea.id, 64);
                let (_, l_sid, _) = driver.add(loser.clone(), l_origin).map_err(|e| Fail::violation("c05:add-failed", e.to_string()))?;
                let barrier = std::sync::Arc::new(std::sync::Barrier::new(2));
                let (d1, d2, b1, b2) = (driver.clone(), driver.clone(), barrier.clone(), barrier.clone());
                let w = winner.clone();
                let peer = eb.id;
                // Home in on the skew at which the two calls overlap: each round reports which call finished
                // first, and the start of the other one is delayed (by spinning) a little more or less, with a
                // shrinking step - a bisection that then keeps oscillating around the crossover.
                let spin = |n: u32| { let mut x = 0u64; for i in 0..n { x = x.wrapping_add(i as u64); std::hint::black_box(x); } };
                let (s1, s2) = if skew >= 0 { (0u32, skew as u32) } else { ((-skew) as u32, 0u32) };
                let t1 = std::thread::spawn(move || { b1.wait(); spin(s1); let r = d1.add(w, w_origin).map(|(_, sid, _)| sid).map_err(|e| e.to_string()); (r, std::time::Instant::now()) });
                let t2 = std::thread::spawn(move || { b2.wait(); spin(s2); d2.remove_with_stable_id(peer, l_sid, DisconnectReason::ConnectionClosed); std::time::Instant::now() });
                let (r1, t1_done) = match t1.join() { Ok(x) => x, Err(_) => return Err(Fail::Inconclusive("thread panicked".into())) };
                let t2_done = t2.join().map_err(|_| Fail::Inconclusive("thread panicked".into()))?;
                // the report finished first => start it later next time
                if t2_done < t1_done { skew += step; } else { skew -= step; }
                skew = skew.clamp(-400_000, 400_000);
                step = (step * 9 / 10).max(6);
                if round % 64 == 63 { step = step.max(200); } // re-open the search now and then (the crossover drifts)
                let t1 = r1;
                let w_sid = match t1 { Ok(s) => s, Err(e) => vfail!("c05:add-failed", "{e}") };
                match driver.get(&eb.id) {
                    Some(g) if g.0 == w_sid => {}
                    Some(g) => vfail!("c05:wrong-survivor", "round {round}: the set holds connection {} after the winner (stable id {w_sid}) was added", g.0),
                    None => { removed_winner += 1; vfail!("c05:no-connection-left", "round {round}: the winner was added while the replaced connection's end was being reported on another thread; afterwards the set holds no connection to the peer ({removed_winner})") }
                }
            }
            obs.evals(case.rounds as u64);
            obs.nontrivial(&case);
            Ok(())
        })
    }
}

pub fn run(tier: Tier) -> i32 {
    let mut ctx = Ctx::new("C05", tier);
    ctx.assume("arrival orders of two connections at two sides are enumerated completely at the decision level; at driver and network level they are generated through schedules and asymmetric delays");
    ctx.run_part(Decision, tier.pick(20_000, 500_000));
    ctx.run_part(BothSidesPart, tier.pick(1_500, 40_000));
    ctx.run_part(Networks, tier.pick(8_000, 200_000));
    ctx.assume("the real-time part costs wall-clock time and is not a pure function of the seed; its oracle only looks at the converged end state");
    ctx.run_part_threads(NetworksRealTime, tier.pick(32, 320), 16);
    ctx.run_part_threads(CloseNoticeRace, tier.pick(32, 400), 4);
    ctx.finish()
}
