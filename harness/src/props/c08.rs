//! C08 — shutdown always completes, releases everything and never panics.
//!
//! Part A (virtual time): generated mixes of in-flight work at the shutdown instant, and runtime
//! drops at every packet-event time of a reference run. Part D (real threads, child processes):
//! the runtime-teardown racer lives in `c08_racer.rs`.

use crate::core::*;
use crate::simnet::*;
use crate::{vensure, vfail};
use anemo::types::PeerEvent;
use anemo::{Network, PeerId};
use proptest::prelude::*;
use serde::{Deserialize, Serialize};
use std::sync::{Arc, Mutex};
use tokio::sync::broadcast::error::TryRecvError;

#[derive(Clone, Debug, Serialize, Deserialize, PartialEq, Eq, Hash)]
pub enum Work {
    /// peer calls S; the handler at S needs this long (None = never finishes)
    InboundRpc { peer: u8, handler_ms: Option<u32>, before_ms: u16 },
    /// S calls the peer; the peer's handler needs this long
    OutboundRpc { peer: u8, handler_ms: Option<u32>, before_ms: u16 },
    /// S dials an address where nobody answers (pending until the connect timeout)
    DialDead { before_ms: u16 },
    /// S dials a node it is not yet connected to (handshake possibly in flight at shutdown)
    DialFresh { before_ms: u16 },
    /// a node S is not yet connected to dials S
    InboundDial { before_ms: u16 },
    /// n connect requests at once (fills a small mailbox)
    ConnectFlood { n: u8, before_ms: u16 },
    Subscribe { before_ms: u16 },
    /// the application takes a `Peer` handle (Network::peer) and still holds it at and after the shutdown
    HoldPeerHandle { peer: u8, before_ms: u16 },
}

#[derive(Clone, Debug, Serialize, Deserialize, PartialEq, Eq, Hash)]
pub enum How {
    Explicit,
    /// two shutdown calls at the same instant
    Twice,
    /// n concurrent shutdown calls from clones
    Concurrent(u8),
    /// every handle is dropped (no explicit call)
    DropHandles,
    /// a first shutdown call is started and abandoned (its future dropped) after this many ms,
    /// then shutdown is called again
    AbandonedThenAgain(u8),
}

#[derive(Clone, Debug, Serialize, Deserialize, PartialEq, Eq, Hash)]
pub enum Late {
    Connect,
    ConnectPinned,
    Rpc,
    Subscribe,
    Peers,
    Disconnect,
    Shutdown,
}

#[derive(Clone, Debug, Serialize, Deserialize, PartialEq, Eq, Hash)]
pub struct Case {
    pub peers: u8,
    /// per peer: partitioned from S just before the shutdown
    pub partitioned: Vec<bool>,
    /// index into [0, 50, 1000, 60000]
    pub idle_wait: u8,
    pub mailbox_cap: Option<u8>,
    pub work: Vec<Work>,
    pub how: How,
    pub late: Vec<Late>,
    /// Some(k): instead of shutting down, drop the runtime at the k-th distinct fabric event time
    /// (scaled) of the scenario; the handles survive the runtime
    pub crash_point: Option<u16>,
}

const IDLE_WAITS: [u64; 4] = [0, 50, 1_000, 60_000];
const T0: u64 = 600;
const PEER_IDLE_MS: u64 = 4_000;

struct Pending {
    what: String,
    handle: tokio::task::JoinHandle<Result<String, String>>,
}

/// What survives the runtime in crash-point mode.
pub struct Survivors {
    pub s: Network,
    pub clones: Vec<Network>,
    pub weak: anemo::NetworkRef,
}

enum Outcome {
    Done,
    Crashed(Survivors, Vec<u64>),
}

fn scenario(case: &Case, crash_at_us: Option<u64>, record_events: bool) -> Result<(Outcome, Vec<u64>, Vec<String>), Fail> {
    let case = case.clone();
    let labels: Arc<Mutex<Vec<String>>> = Arc::new(Mutex::new(Vec::new()));
    let labels2 = labels.clone();
    let events_out: Arc<Mutex<Vec<u64>>> = Arc::new(Mutex::new(Vec::new()));
    let events_out2 = events_out.clone();
    let r = run_sim(97, 2, move |sim| async move {
        let bound = IDLE_WAITS[case.idle_wait as usize % 4];
        let np = case.peers.clamp(1, 3) as usize;
        let mut ss = NodeSpec::new(0);
        ss.config.shutdown_idle_timeout_ms = Some(bound);
        ss.config.connection_manager_channel_capacity = case.mailbox_cap.map(|c| c.max(1) as usize);
        ss.config.connect_timeout_ms = Some(3_000);
        let s = sim.node_with(ss.clone())?;
        let s_addr = s.addr();
        let s_id = s.id();
        let mut peers = Vec::new();
        for i in 0..np {
            let mut ps = NodeSpec::new(1 + i as u8);
            let q = ps.config.quic.as_mut().unwrap();
            q.max_idle_timeout_ms = Some(PEER_IDLE_MS);
            q.keep_alive_interval_ms = Some(1_000);
            let p = sim.node_with(ps)?;
            match within(10_000, s.net.connect(p.addr())).await {
                Ok(Ok(_)) => {}
                _ => return Err(Fail::Inconclusive("setup connect failed".into())),
            }
            peers.push(p);
        }
        let fresh_out = sim.node(5)?; // S may dial it
        let fresh_in = sim.node(6)?; // it may dial S
        sleep_ms(100).await;
        let baseline_ok = s.net.peers().len() == np;
        if !baseline_ok {
            return Err(Fail::Inconclusive("setup: S does not list all peers".into()));
        }
        if record_events { sim.fabric.record_event_times(true); }
        let t_base = sim.now_ms();
        let weak = s.net.downgrade();
        let mut peer_subs = Vec::new();
        for p in &peers {
            peer_subs.push(p.net.subscribe().map_err(|e| Fail::Inconclusive(e.to_string()))?.0);
        }
        // ---- schedule the work so that it is in flight at T0
        let mut pending: Vec<Pending> = Vec::new();
        let mut subs: Vec<(tokio::sync::broadcast::Receiver<PeerEvent>, Vec<PeerId>)> = Vec::new();
        let mut clones: Vec<Network> = Vec::new();
        let mut held_peer_handles: Vec<anemo::Peer> = Vec::new();
        let mut work = case.work.clone();
        work.sort_by_key(|w| std::cmp::Reverse(match w {
            Work::InboundRpc { before_ms, .. } | Work::OutboundRpc { before_ms, .. } | Work::DialDead { before_ms } | Work::DialFresh { before_ms }
            | Work::InboundDial { before_ms } | Work::ConnectFlood { before_ms, .. } | Work::Subscribe { before_ms } | Work::HoldPeerHandle { before_ms, .. } => *before_ms,
        }));
        let mut kinds = std::collections::BTreeSet::new();
        let mut next_id = 1u64;
        let crash_deadline = crash_at_us.map(|us| us / 1000);
        for w in &work {
            let before = match w {
                Work::InboundRpc { before_ms, .. } | Work::OutboundRpc { before_ms, .. } | Work::DialDead { before_ms } | Work::DialFresh { before_ms }
                | Work::InboundDial { before_ms } | Work::ConnectFlood { before_ms, .. } | Work::Subscribe { before_ms } | Work::HoldPeerHandle { before_ms, .. } => (*before_ms as u64).min(T0 - 1),
            };
            let at = t_base + T0 - before;
            if let Some(cd) = crash_deadline { if at > t_base + cd { continue; } }
            if sim.now_ms() < at { sleep_ms(at - sim.now_ms()).await; }
            next_id += 1;
            match w {
                Work::InboundRpc { peer, handler_ms, .. } => {
                    kinds.insert("inbound-rpc");
                    let p = &peers[*peer as usize % np];
                    let ctl = Ctl { id: next_id, delay_ms: handler_ms.unwrap_or(0), status_idx: 0, resp_len: 10, resp_hdrs: 0, mode: handler_ms.is_none() as u8 };
                    let net = p.net.clone();
                    pending.push(Pending { what: format!("remote's rpc to S {:?}", handler_ms), handle: tokio::spawn(async move {
                        net.rpc(s_id, ctl_request("/in", &[], &ctl, 40)).await.map(|r| format!("{}", r.status().to_u16())).map_err(|e| e.to_string())
                    }) });
                }
                Work::OutboundRpc { peer, handler_ms, .. } => {
                    kinds.insert("outbound-rpc");
                    let pid = peers[*peer as usize % np].id();
                    let ctl = Ctl { id: next_id, delay_ms: handler_ms.unwrap_or(0), status_idx: 0, resp_len: 10, resp_hdrs: 0, mode: handler_ms.is_none() as u8 };
                    let net = s.net.clone();
                    pending.push(Pending { what: format!("S.rpc {:?}", handler_ms), handle: tokio::spawn(async move {
                        net.rpc(pid, ctl_request("/out", &[], &ctl, 40)).await.map(|r| format!("{}", r.status().to_u16())).map_err(|e| e.to_string())
                    }) });
                }
                Work::DialDead { .. } => {
                    kinds.insert("dial-dead");
                    let net = s.net.clone();
                    pending.push(Pending { what: "S.connect(dead)".into(), handle: tokio::spawn(async move {
                        net.connect(node_addr(9)).await.map(|p| p.to_string()).map_err(|e| e.to_string())
                    }) });
                }
                Work::DialFresh { .. } => {
                    kinds.insert("dial-in-flight");
                    let net = s.net.clone();
                    let addr = fresh_out.addr();
                    pending.push(Pending { what: "S.connect(fresh)".into(), handle: tokio::spawn(async move {
                        net.connect(addr).await.map(|p| p.to_string()).map_err(|e| e.to_string())
                    }) });
                }
                Work::InboundDial { .. } => {
                    kinds.insert("inbound-handshake");
                    let net = fresh_in.net.clone();
                    pending.push(Pending { what: "fresh.connect(S)".into(), handle: tokio::spawn(async move {
                        net.connect(s_addr).await.map(|p| p.to_string()).map_err(|e| e.to_string())
                    }) });
                }
                Work::ConnectFlood { n, .. } => {
                    kinds.insert("mailbox-flood");
                    for k in 0..*n {
                        let net = s.net.clone();
                        let addr = if k % 2 == 0 { node_addr(9) } else { fresh_out.addr() };
                        pending.push(Pending { what: "S.connect(flood)".into(), handle: tokio::spawn(async move {
                            net.connect(addr).await.map(|p| p.to_string()).map_err(|e| e.to_string())
                        }) });
                    }
                }
                Work::Subscribe { .. } => {
                    kinds.insert("subscriber");
                    if let Ok(x) = s.net.subscribe() { subs.push(x); }
                }
                Work::HoldPeerHandle { peer, .. } => {
                    kinds.insert("held-peer-handle");
                    if let Some(h) = s.net.peer(peers[*peer as usize % np].id()) { held_peer_handles.push(h); }
                }
            }
        }
        // ---- crash-point mode: drop the runtime at the chosen instant; the handles survive
        if let Some(us) = crash_at_us {
            let target = t_base * 1000 + us;
            let now = sim.fabric.now_us();
            if target > now {
                tokio::time::sleep(std::time::Duration::from_micros(target - now)).await;
            }
            for _ in 0..2 { clones.push(s.net.clone()); }
            let ev = sim.fabric.event_times_us();
            return Ok(Outcome::Crashed(Survivors { s: s.net.clone(), clones, weak }, ev));
        }
        if sim.now_ms() < t_base + T0 { sleep_ms(t_base + T0 - sim.now_ms()).await; }
        // ---- partitions start right before the shutdown
        for (i, part) in case.partitioned.iter().take(np).enumerate() {
            if *part {
                let now = sim.now_ms();
                for (a, b) in [(0u8, 1 + i as u8), (1 + i as u8, 0u8)] {
                    sim.fabric.add_fault(FaultSeg { t0_ms: now, t1_ms: now + 600_000, from: Some(a), to: Some(b), partition: true, ..Default::default() });
                }
            }
        }
        let subscriber_views: Vec<Vec<PeerId>> = subs.iter().map(|(_, v)| v.clone()).collect();
        let s_rec = s.rec.clone();
        let listed_before: Vec<PeerId> = s.net.peers();
        // ---- shut down
        let t_shutdown = sim.now_ms();
        let s_net = s.net.clone();
        drop(s); // the Node wrapper: keep only handles we control
        match &case.how {
            How::Explicit | How::Twice | How::Concurrent(_) | How::AbandonedThenAgain(_) => {
                if let How::AbandonedThenAgain(ms) = &case.how {
                    let net = s_net.clone();
                    let _ = tokio::time::timeout(std::time::Duration::from_millis(*ms as u64), net.shutdown()).await;
                }
                let n = match &case.how { How::Explicit | How::AbandonedThenAgain(_) => 1, How::Twice => 2, How::Concurrent(k) => (*k).clamp(2, 8) as usize, _ => 1 };
                let mut calls = Vec::new();
                for _ in 0..n {
                    let net = s_net.clone();
                    calls.push(tokio::spawn(async move { net.shutdown().await.map_err(|e| e.to_string()) }));
                }
                let mut oks = 0;
                for c in calls {
                    match within(bound + 3_100, c).await {
                        Ok(Ok(Ok(()))) => oks += 1,
                        Ok(Ok(Err(_))) => {}
                        Ok(Err(e)) => vfail!("c08:shutdown-call-panicked", "a shutdown call failed: {e}"),
                        Err(()) => vfail!("c08:shutdown-hang", "shutdown (idle-wait bound {bound} ms) did not return within {} ms; in flight: {:?}", bound + 3_100, kinds),
                    }
                }
                // (after an abandoned first call the network may already be down: the second call may then return an error, at once)
                vensure!(oks >= 1 || matches!(case.how, How::AbandonedThenAgain(_)), "c08:shutdown-refused", "none of {n} shutdown call(s) returned Ok although the network was up (in flight: {:?}, mailbox capacity {:?})", kinds, case.mailbox_cap);
                let took = sim.now_ms() - t_shutdown;
                // pending connects are aborted, handlers joined, then the idle wait is bounded by configuration
                vensure!(took <= bound + 50, "c08:shutdown-slow", "shutdown took {took} ms; configured idle-wait bound is {bound} ms (+50 ms); in flight: {:?}", kinds);
            }
            How::DropHandles => {}
        }
        // every handle we hold is dropped for the drop variant; for explicit variants we keep one to ask questions
        let keep = match &case.how { How::DropHandles => None, _ => Some(s_net.clone()) };
        drop(s_net);
        if keep.is_none() {
            // pending tasks hold clones of S until they resolve: they must resolve on their own only for
            // calls that have a natural end; the handles inside never-ending calls are dropped by aborting them
            for p in pending.iter().filter(|p| p.what.starts_with("S.")) { p.handle.abort(); }
            let mut waited = 0;
            while sim.fabric.is_bound(s_addr) && waited < bound + 3_100 {
                sleep_ms(10).await;
                waited += 10;
            }
            if sim.fabric.is_bound(s_addr) && !held_peer_handles.is_empty() {
                // F8 again: the shutdown may be complete and only the held Peer handles keep the address
                let key = "c08:address-still-bound:peer-handle-held";
                held_peer_handles.clear();
                for _ in 0..10 { if !sim.fabric.is_bound(s_addr) { break; } sleep_ms(10).await; }
                if !sim.fabric.is_bound(s_addr) {
                    match crate::core::known_open("C08", key) {
                        Some(what) => labels2.lock().unwrap().push(format!("KNOWN:{key}:{what}")),
                        None => vfail!(key, "after dropping every Network handle the address stayed bound until the application's Peer handles were dropped too"),
                    }
                }
            }
            vensure!(!sim.fabric.is_bound(s_addr), "c08:drop-shutdown-incomplete", "after dropping every handle the network did not shut down within {} ms (address still bound); in flight: {:?}", bound + 3_100, kinds);
        }
        let t_after = sim.now_ms();
        // ---- what must hold afterwards
        check_no_panics("during shutdown")?;
        if let Some(net) = &keep {
            vensure!(net.is_closed(), "c08:not-closed", "is_closed() is false after shutdown returned");
            vensure!(net.peers().is_empty(), "c08:peers-after-shutdown", "peers() = {:?} after shutdown", net.peers());
        }
        vensure!(weak.upgrade().is_none(), "c08:weak-upgrades", "NetworkRef::upgrade() still yields a network after shutdown");
        if sim.fabric.is_bound(s_addr) && !held_peer_handles.is_empty() {
            // F8: a `Peer` handle the application still holds keeps the (closed) quinn connection alive,
            // and with it that connection's reference to the endpoint's old socket. Attributed only
            // if dropping the handles is what frees the address.
            let n = held_peer_handles.len();
            held_peer_handles.clear();
            for _ in 0..10 { if !sim.fabric.is_bound(s_addr) { break; } sleep_ms(10).await; }
            let key = "c08:address-still-bound:peer-handle-held";
            if !sim.fabric.is_bound(s_addr) {
                match crate::core::known_open("C08", key) {
                    Some(what) => labels2.lock().unwrap().push(format!("KNOWN:{key}:{what}")),
                    None => vfail!(key, "the socket address is still bound after shutdown returned while the application holds {n} Peer handle(s); it is released only when they are dropped"),
                }
            }
        }
        vensure!(!sim.fabric.is_bound(s_addr), "c08:address-still-bound", "the socket address is still bound after shutdown returned");
        vensure!(s_rec.live_clones() == 0, "c08:service-clone-alive", "{} clone(s) of the user's service are still alive after shutdown (in flight: {:?})", s_rec.live_clones(), kinds);
        // subscribers: a LostPeer for every peer they had, then end of stream
        for (i, (rx, _)) in subs.iter_mut().enumerate() {
            let mut lost = Vec::new();
            let mut have: Vec<PeerId> = subscriber_views[i].clone();
            let closed;
            loop {
                match rx.try_recv() {
                    Ok(PeerEvent::NewPeer(p)) => have.push(p),
                    Ok(PeerEvent::LostPeer(p, _)) => { lost.push(p); have.retain(|x| *x != p); }
                    Err(TryRecvError::Closed) => { closed = true; break; }
                    Err(TryRecvError::Empty) => { closed = false; break; }
                    Err(TryRecvError::Lagged(_)) => continue,
                }
            }
            vensure!(closed, "c08:subscriber-not-closed", "subscriber {i} did not reach end-of-stream after shutdown");
            vensure!(have.is_empty(), "c08:subscriber-missed-lostpeer", "subscriber {i} never saw LostPeer for {:?}", have);
        }
        // every API call pending at the shutdown resolves (to whatever) instead of hanging
        for p in pending {
            if p.handle.is_finished() || p.what.starts_with("S.") {
                match within(bound + 6_000, p.handle).await {
                    Ok(_) => {}
                    Err(()) => vfail!("c08:pending-call-hangs", "{} was pending at shutdown and has not returned {} ms later", p.what, bound + 6_000),
                }
            } else {
                // a remote's call into S ends when the remote notices the loss: its idle timeout for an
                // RPC, its own connect timeout (10 s default) for a dial that S abandoned mid-handshake
                match within(PEER_IDLE_MS + 12_000, p.handle).await {
                    Ok(_) => {}
                    Err(()) => vfail!("c08:remote-call-hangs", "{} has not returned {} ms after S shut down", p.what, PEER_IDLE_MS + 12_000),
                }
            }
        }
        // calls issued after shutdown return errors at once
        if let Some(net) = &keep {
            for l in &case.late {
                let t = sim.now_ms();
                let r: Result<(), String> = match l {
                    Late::Connect => within(1_000, net.connect(fresh_out.addr())).await.map_err(|_| "hang".to_string()).and_then(|r| r.map(|_| ()).map_err(|e| e.to_string())),
                    Late::ConnectPinned => within(1_000, net.connect_with_peer_id(fresh_out.addr(), fresh_out.id())).await.map_err(|_| "hang".to_string()).and_then(|r| r.map(|_| ()).map_err(|e| e.to_string())),
                    Late::Rpc => {
                        let ctl = Ctl { id: 1, delay_ms: 0, status_idx: 0, resp_len: 1, resp_hdrs: 0, mode: 0 };
                        within(1_000, net.rpc(peers[0].id(), ctl_request("/late", &[], &ctl, 30))).await.map_err(|_| "hang".to_string()).and_then(|r| r.map(|_| ()).map_err(|e| e.to_string()))
                    }
                    Late::Subscribe => net.subscribe().map(|_| ()).map_err(|e| e.to_string()),
                    Late::Peers => if net.peers().is_empty() { Err("empty".into()) } else { Ok(()) },
                    Late::Disconnect => net.disconnect(peers[0].id()).map_err(|e| e.to_string()),
                    Late::Shutdown => within(1_000, net.shutdown()).await.map_err(|_| "hang".to_string()).and_then(|r| r.map_err(|e| e.to_string())),
                };
                match r {
                    Err(e) if e == "hang" => vfail!("c08:late-call-hangs", "{l:?} issued after shutdown did not return"),
                    Err(_) => {}
                    Ok(()) => vfail!("c08:late-call-succeeded", "{l:?} issued after shutdown succeeded"),
                }
                vensure!(sim.now_ms() - t <= 1, "c08:late-call-slow", "{l:?} issued after shutdown took {} ms", sim.now_ms() - t);
            }
        }
        // remote peers observe the disconnect: reachable ones at once, partitioned ones within their idle timeout
        for (i, p) in peers.iter().enumerate() {
            let partitioned = case.partitioned.get(i).copied().unwrap_or(false);
            let limit = if partitioned { PEER_IDLE_MS + 1_500 } else { 100 };
            let deadline = t_after.max(t_shutdown) + limit;
            while p.net.peers().contains(&s_id) && sim.now_ms() < deadline { sleep_ms(10).await; }
            vensure!(!p.net.peers().contains(&s_id), "c08:remote-still-lists", "peer {i} (partitioned: {partitioned}) still lists S {} ms after the shutdown", sim.now_ms() - t_shutdown);
            let mut saw = false;
            while let Ok(e) = peer_subs[i].try_recv() { if matches!(e, PeerEvent::LostPeer(x, _) if x == s_id) { saw = true; } }
            vensure!(saw || !listed_before.contains(&p.id()), "c08:remote-no-event", "peer {i} never announced LostPeer(S)");
        }
        // the address can be re-bound at once: a new network starts there and accepts a connection
        let again = sim.node_with(ss.clone())?;
        match within(5_000, peers.iter().find(|_| true).unwrap().net.connect(again.addr())).await {
            Ok(Ok(_)) => {}
            other => {
                // a partitioned peer cannot reach it: use the fresh node instead
                match within(5_000, fresh_in.net.connect(again.addr())).await {
                    Ok(Ok(_)) => {}
                    _ => vfail!("c08:rebind-useless", "a new network at the same address does not accept connections: {:?}", other.map(|r| r.map_err(|e| e.to_string()))),
                }
            }
        }
        sim.health()?;
        check_no_panics("after shutdown")?;
        let mut l = labels2.lock().unwrap();
        for k in &kinds { l.push(format!("in-flight:{k}")); }
        l.push(format!("kinds={}", kinds.len().min(4)));
        if record_events {
            *events_out2.lock().unwrap() = sim.fabric.event_times_us().into_iter().map(|t| t.saturating_sub(t_base * 1000)).collect();
        }
        drop(held_peer_handles); // held until here: across the shutdown and every check after it
        Ok(Outcome::Done)
    });
    let ev = events_out.lock().unwrap().clone();
    let l = labels.lock().unwrap().clone();
    r.map(|o| (o, ev, l))
}

pub fn shutdown_case(case: &Case, obs: &mut Obs) -> Result<(), Fail> {
    match case.crash_point {
        None => {
            let (_, _, labels) = scenario(case, None, false)?;
            let kinds = labels.iter().filter(|l| l.starts_with("in-flight:")).count();
            for l in labels {
                match l.strip_prefix("KNOWN:") {
                    Some(k) => { let (key, what) = k.split_at(k.find(":peer-handle-held:").map(|i| i + ":peer-handle-held".len()).unwrap_or(k.len())); obs.known.push((key.to_string(), what.trim_start_matches(':').to_string())); obs.label("known-finding:address-bound-while-peer-handle-held"); }
                    None => obs.label(l),
                }
            }
            obs.label(format!("how:{:?}", case.how).split('(').next().unwrap_or("").to_string());
            if kinds >= 2 { obs.nontrivial(case); }
            Ok(())
        }
        Some(k) => {
            // reference run to learn the event times, then drop the runtime at the chosen one
            let mut reference = case.clone();
            reference.crash_point = None;
            let (_, events, _) = scenario(&reference, None, true)?;
            let mut points: Vec<u64> = vec![0];
            points.extend(events.iter().copied());
            points.push((T0 + 10) * 1000);
            points.sort();
            points.dedup();
            let at = points[idx(k, points.len())];
            let (out, _, _) = scenario(case, Some(at), false)?;
            let Outcome::Crashed(surv, _) = out else { return Ok(()) };
            // the runtime is gone (dropped inside run_sim). The handles must still answer, from a
            // fresh runtime, with errors - no hang, no panic - and dropping them must be clean.
            check_no_panics("while dropping the runtime")?;
            let rt = tokio::runtime::Builder::new_current_thread().enable_all().start_paused(true).build().unwrap();
            let res = rt.block_on(async {
                let _ = surv.s.peers();
                let _ = surv.s.is_closed();
                let _ = surv.weak.upgrade().map(|n| n.peers());
                for (what, fut) in [
                    ("connect", Box::pin(async { surv.s.connect(node_addr(1)).await.map(|_| ()).map_err(|e| e.to_string()) }) as std::pin::Pin<Box<dyn std::future::Future<Output = Result<(), String>>>>),
                    ("shutdown", Box::pin(async { surv.s.shutdown().await.map_err(|e| e.to_string()) })),
                    ("rpc", Box::pin(async { surv.s.rpc(peer_id_of_seed(&key_seed(1)), anemo::Request::new(bytes::Bytes::new())).await.map(|_| ()).map_err(|e| e.to_string()) })),
                ] {
                    match tokio::time::timeout(std::time::Duration::from_secs(120), fut).await {
                        Ok(_) => {}
                        Err(_) => return Err(Fail::violation("c08:call-after-runtime-drop-hangs", format!("{what} on a handle that outlived its runtime (dropped at +{at} us) did not return within 120 virtual seconds"))),
                    }
                }
                let _ = surv.s.subscribe();
                Ok(())
            });
            drop(rt);
            res?;
            drop(surv);
            check_no_panics("after the runtime was dropped")?;
            obs.label("runtime-dropped");
            obs.label(if at < T0 * 1000 { "crash-before-shutdown-instant" } else { "crash-at-or-after" });
            obs.nontrivial(&(case.work.len(), at));
            Ok(())
        }
    }
}

pub struct Shutdowns;
impl Part for Shutdowns {
    type Case = Case;
    fn name(&self) -> &'static str { "shutdown-scenarios" }
    fn rule(&self) -> &'static str {
        "a network with 1-3 peers (reachable or partitioned at the shutdown instant) and a generated mix of work in flight at that instant: inbound RPCs in slow / never-finishing handlers, outbound RPCs to slow peers, dials to a dead address, dials and inbound handshakes caught mid-flight, floods of connect requests into a small mailbox, subscribers; Peer handles the application still holds; shutdown by one explicit call, two or n concurrent calls, a call that is abandoned after 0-60 ms followed by another call, or by dropping every handle; idle-wait bound in {0, 50, 1000, 60000} ms; then calls issued after shutdown; oracle: an explicit shutdown returns Ok within the bound + 50 ms; afterwards is_closed, no peers, address unbound and a new network there accepts a connection, no clone of the user's service alive, subscribers get LostPeer for every peer and then end-of-stream, NetworkRef does not upgrade, reachable remotes report the loss at once and partitioned ones within their idle timeout, every pending call returns, late calls fail at once, no panic; with crash_point: the runtime is dropped at a packet-event time of a reference run and the surviving handles must answer from a fresh runtime without hanging or panicking; non-trivial = >=2 kinds of work in flight, or a runtime drop; distinct by case"
    }
    fn strategy(&self, t: Tier) -> BoxedStrategy<Case> {
        let before = || prop_oneof![2 => 0u16..8, 2 => 8u16..60, 1 => 60u16..500];
        let dur = || prop_oneof![1 => Just(None), 2 => (1_000u32..100_000).prop_map(Some), 1 => (0u32..50).prop_map(Some)];
        let work = prop_oneof![
            3 => (0u8..3, dur(), before()).prop_map(|(peer, handler_ms, before_ms)| Work::InboundRpc { peer, handler_ms, before_ms }),
            3 => (0u8..3, dur(), before()).prop_map(|(peer, handler_ms, before_ms)| Work::OutboundRpc { peer, handler_ms, before_ms }),
            2 => before().prop_map(|before_ms| Work::DialDead { before_ms }),
            2 => before().prop_map(|before_ms| Work::DialFresh { before_ms }),
            2 => before().prop_map(|before_ms| Work::InboundDial { before_ms }),
            1 => (1u8..12, before()).prop_map(|(n, before_ms)| Work::ConnectFlood { n, before_ms }),
            2 => before().prop_map(|before_ms| Work::Subscribe { before_ms }),
            2 => (0u8..3, before()).prop_map(|(peer, before_ms)| Work::HoldPeerHandle { peer, before_ms }),
        ];
        let how = prop_oneof![4 => Just(How::Explicit), 1 => Just(How::Twice), 1 => (2u8..6).prop_map(How::Concurrent), 2 => Just(How::DropHandles), 2 => (0u8..60).prop_map(How::AbandonedThenAgain)];
        let late = prop_oneof![Just(Late::Connect), Just(Late::ConnectPinned), Just(Late::Rpc), Just(Late::Subscribe), Just(Late::Peers), Just(Late::Disconnect), Just(Late::Shutdown)];
        let crash = match t { Tier::Quick => prop::option::weighted(0.25, any::<u16>()), Tier::Thorough => prop::option::weighted(0.4, any::<u16>()) };
        (1u8..4, prop::collection::vec(prop::bool::weighted(0.3), 3), 0u8..4, prop::option::weighted(0.4, 1u8..5), prop::collection::vec(work, 0..8), how, prop::collection::vec(late, 0..5), crash)
            .prop_map(|(peers, partitioned, idle_wait, mailbox_cap, work, how, late, crash_point)| Case { peers, partitioned, idle_wait, mailbox_cap, work, how, late, crash_point })
            .boxed()
    }
    fn run(&self, c: &Case, obs: &mut Obs) -> Result<(), Fail> { shutdown_case(c, obs) }
}

pub fn run(tier: Tier) -> i32 {
    let mut ctx = Ctx::new("C08", tier);
    ctx.level = "fault_enumeration";
    ctx.assume("virtual-time part: runtime drops are placed at packet-event times of a reference run of the same scenario; a current-thread runtime drops its tasks without polling them, so multi-thread teardown races are the racer's job");
    ctx.assume("racer: real threads, real loopback UDP, child processes; interleavings are sampled (sharpened by pre-emption at generated points), not enumerated; a replay re-runs the case several times");
    ctx.run_part(Shutdowns, tier.pick(500, 12_000));
    super::c08_racer::run_racer(&mut ctx, tier);
    ctx.assume("busy-handlers: real threads and loopback UDP; which handlers are inside a synchronous stretch at the moment of shutdown is computed from the generated durations and the measured delay (15 ms margin)");
    super::c08_busy::run_busy(&mut ctx, tier);
    ctx.finish()
}
