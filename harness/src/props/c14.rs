//! C14 — networks with different names never connect.

use crate::core::*;
use crate::refmodel::x509ref;
use crate::simnet::adversary::{self as adv, Presented, SignerKind, Validity};
use crate::simnet::*;
use crate::{vensure, vfail};
use anemo::verif::crypto as ic;
use proptest::prelude::*;
use serde::{Deserialize, Serialize};
use std::sync::{Arc, Mutex};

/// Small alphabet with names related by label suffix/prefix, so collisions and near-misses are common.
pub const NAMES: [&str; 6] = ["net", "a.net", "b.a.net", "neta", "net-a", "x"];

#[derive(Clone, Debug, Serialize, Deserialize, PartialEq, Eq, Hash)]
pub struct NameCfg {
    pub primary: u8,
    pub alternate: Option<u8>,
}

impl NameCfg {
    fn primary_name(&self) -> String { NAMES[self.primary as usize % NAMES.len()].to_string() }
    fn alt_name(&self) -> Option<String> { self.alternate.map(|a| NAMES[a as usize % NAMES.len()].to_string()) }
    fn accepted(&self) -> Vec<String> {
        let mut v = vec![self.primary_name()];
        if let Some(a) = self.alt_name() { v.push(a); }
        v
    }
}

/// completeness ("matching names connect") is only claimed for the plain grid names; odd forms
/// (trailing dots, wildcards, upper case) are used for the security direction only
fn plain(n: &str) -> bool {
    NAMES.contains(&n)
}

fn spec(idx: u8, cfg: &NameCfg) -> NodeSpec {
    let mut s = NodeSpec::new(idx);
    s.server_name = cfg.primary_name();
    s.alternate_server_name = cfg.alt_name();
    s
}

/// One honest pair: D dials L. Returns whether the dial succeeded.
pub fn honest_dial(d: &NameCfg, l: &NameCfg) -> Result<bool, Fail> {
    let (d, l) = (d.clone(), l.clone());
    run_sim(21, 2, |sim| async move {
        let dn = sim.node_with(spec(0, &d))?;
        let ln = sim.node_with(spec(1, &l))?;
        let r = match within(20_000, dn.net.connect(ln.addr())).await {
            Ok(r) => r,
            Err(()) => vfail!("c14:dial-hang", "dial between names {:?} -> {:?} did not return", d, l),
        };
        sleep_ms(100).await;
        let ok = r.is_ok();
        let want = l.accepted().contains(&d.primary_name());
        vensure!(ok == want, if ok { "c14:cross-network-connect" } else { "c14:same-network-refused" },
            "dialer (primary {:?}, alternate {:?}) -> listener (primary {:?}, alternate {:?}): connect ok={ok}, but the dialer's primary name is {}accepted by the listener{}",
            d.primary_name(), d.alt_name(), l.primary_name(), l.alt_name(), if want { "" } else { "not " }, r.as_ref().err().map(|e| format!(" [{e}]")).unwrap_or_default());
        // views agree with the verdict on both sides
        vensure!(dn.net.peers().contains(&ln.id()) == want && ln.net.peers().contains(&dn.id()) == want, "c14:listing-disagrees", "after the dial (ok={ok}) dialer lists listener = {}, listener lists dialer = {}", dn.net.peers().contains(&ln.id()), ln.net.peers().contains(&dn.id()));
        sim.health()?;
        check_no_panics("during cross-network dials")?;
        Ok(ok)
    })
}

/// The complete grid over NAMES: every (primary, optional alternate) for dialer and listener.
pub fn grid(known: &KnownFindings) -> PartReport {
    let mut cfgs = Vec::new();
    for p in 0..NAMES.len() as u8 {
        cfgs.push(NameCfg { primary: p, alternate: None });
        for a in 0..NAMES.len() as u8 {
            if a != p {
                cfgs.push(NameCfg { primary: p, alternate: Some(a) });
            }
        }
    }
    let pairs: Vec<(NameCfg, NameCfg)> = cfgs.iter().flat_map(|d| cfgs.iter().map(move |l| (d.clone(), l.clone()))).collect();
    let threads = crate::core::threads();
    let chunks: Vec<Vec<(NameCfg, NameCfg)>> = (0..threads).map(|t| pairs.iter().skip(t).step_by(threads).cloned().collect()).collect();
    let reports: Vec<PartReport> = std::thread::scope(|s| {
        let hs: Vec<_> = chunks.into_iter().map(|chunk| s.spawn(move || {
            let mut rep = PartReport::default();
            for (d, l) in chunk {
                rep.evaluations += 1;
                match honest_dial(&d, &l) {
                    Ok(ok) => {
                        *rep.labels.entry(if ok { "connected".into() } else { "refused".to_string() }).or_insert(0) += 1;
                        if d.alternate.is_some() || l.alternate.is_some() || d.primary != l.primary {
                            rep.nontrivial.insert(fingerprint(&(&d, &l)));
                        }
                        if rep.samples.len() < 2 && d.alternate.is_some() {
                            rep.samples.push(serde_json::json!({"dialer": d, "listener": l, "connected": ok}));
                        }
                    }
                    Err(Fail::Violation { key, msg }) => {
                        if known.open_for("C14", &key).is_some() {
                            rep.known.insert((key, msg));
                            rep.known_hits += 1;
                        } else {
                            rep.violation = Some(Violation { part: "name-grid".into(), key, msg, case: serde_json::json!({"dialer": d, "listener": l}) });
                            break;
                        }
                    }
                    Err(Fail::Inconclusive(m)) => { rep.inconclusive = Some(m); break; }
                }
            }
            rep
        })).collect();
        hs.into_iter().map(|h| h.join().expect("grid thread")).collect()
    });
    let mut rep = reports.into_iter().reduce(|mut a, b| {
        a.evaluations += b.evaluations;
        a.nontrivial.extend(b.nontrivial);
        for (k, v) in b.labels { *a.labels.entry(k).or_insert(0) += v; }
        a.known.extend(b.known);
        a.known_hits += b.known_hits;
        if a.violation.is_none() { a.violation = b.violation; }
        if a.inconclusive.is_none() { a.inconclusive = b.inconclusive; }
        a.samples.extend(b.samples);
        a
    }).unwrap();
    rep.samples.truncate(3);
    rep.name = "name-grid".into();
    rep.rule = format!("exhaustive grid over the {} names {:?}: every (primary, optional alternate) configuration of dialer x listener (36 x 36 pairs, each direction is its own pair), honest networks on the fabric; oracle computed from the configuration alone: connect Ok <=> dialer's PRIMARY name is one the listener accepts, and both listings agree with the verdict; non-trivial = pairs involving an alternate name or different primaries", NAMES.len(), NAMES);
    rep.exhaustive = true;
    rep
}

// ------------------------------------------------------------------ adversarial dialer / impostor listener

#[derive(Clone, Debug, Serialize, Deserialize, PartialEq, Eq, Hash)]
pub struct AdvCase {
    pub listener: NameCfg,
    /// name claimed in the TLS hello
    pub sni: String,
    /// DNS names in the presented certificate
    pub cert_names: Vec<String>,
    /// true: Z dials the honest node; false: the honest node dials Z (which presents the certificate)
    pub z_dials: bool,
    /// Z dials only: the same key first pays a fully valid visit (hello and certificate for the
    /// listener's primary name), disconnects, and only then makes the attempt described above
    #[serde(default)]
    pub prior_valid_visit: bool,
    /// Z dials only: the hello carries no server name at all (no name is never an accepted name)
    #[serde(default)]
    pub no_sni: bool,
    /// the honest node dials: with the impostor's identity pinned (connect_with_peer_id; the
    /// impostor really owns that key, only its certificate names another network)
    #[serde(default)]
    pub pinned: bool,
}

fn name_pool() -> BoxedStrategy<String> {
    prop_oneof![
        6 => prop::sample::select(NAMES.to_vec()).prop_map(str::to_string),
        2 => prop::sample::select(vec!["*.net", "*.a.net", "evil.net", "net.evil", "a", "ne", "nett", "NET", "a.net.", "b.net"]).prop_map(str::to_string),
        1 => "[a-z]{1,3}(\\.[a-z]{1,3}){0,2}",
    ]
    .boxed()
}

pub fn adv_case(c: &AdvCase, obs: &mut Obs) -> Result<(), Fail> {
    let c = c.clone();
    run_sim(23, 2, |sim| async move {
        let l = sim.node_with(spec(0, &c.listener))?;
        let z_seed = key_seed(277);
        let z_id = peer_id_of_seed(&z_seed);
        let Ok(cert) = std::panic::catch_unwind(|| adv::self_signed(&z_seed, &c.cert_names, Validity::Valid)) else {
            crate::panics::clear_thread();
            obs.label("discarded:certificate-not-constructible");
            return Ok(());
        };
        let presented = Presented { chain: vec![cert.clone()], signer: SignerKind::Ed25519(z_seed) };
        let seen: adv::Recorded = Arc::new(Mutex::new(Vec::new()));
        let accepted = c.listener.accepted();
        let now = std::time::SystemTime::now().duration_since(std::time::UNIX_EPOCH).unwrap().as_secs();
        let cert_ok_for = |names: &[String]| x509ref::accept(&cert, names, now).is_ok();
        if c.z_dials {
            let ep = adv::raw_endpoint(&sim.fabric, node_addr(3), None).map_err(|e| Fail::Inconclusive(e.to_string()))?;
            let sni_valid = rustls::pki_types::ServerName::try_from(c.sni.clone()).is_ok();
            if !sni_valid {
                obs.label("discarded:sni-not-a-dns-name");
                return Ok(());
            }
            if c.prior_valid_visit {
                let primary = c.listener.primary_name();
                let good = Presented { chain: vec![adv::self_signed(&z_seed, &[primary.clone()], Validity::Valid)], signer: SignerKind::Ed25519(z_seed) };
                match within(20_000, adv::dial_and_await_ack(&ep, adv::client_config(Some(&good), Arc::new(Mutex::new(Vec::new()))), l.addr(), &primary)).await {
                    Ok(Ok(conn)) => {
                        sleep_ms(50).await;
                        conn.close(0u32.into(), b"");
                        for _ in 0..100 {
                            if !l.net.peers().contains(&z_id) { break; }
                            sleep_ms(20).await;
                        }
                        obs.label("same-key-visited-validly-before");
                    }
                    other => vfail!("c14:same-network-refused", "listener with primary {:?} refused a fully valid visit: {:?}", primary, other.map(|r| r.map(|_| ()))),
                }
            }
            let r = within(20_000, adv::dial_and_await_ack(&ep, adv::client_config_opts(Some(&presented), seen, !c.no_sni), l.addr(), &c.sni)).await;
            let admitted = matches!(r, Ok(Ok(_)));
            sleep_ms(100).await;
            let sni_accepted = !c.no_sni && accepted.iter().any(|a| a.eq_ignore_ascii_case(c.sni.trim_end_matches('.')));
            if c.no_sni { obs.label("hello-without-server-name"); }
            let cert_accepted = cert_ok_for(&accepted);
            if admitted {
                vensure!(sni_accepted, "c14:foreign-sni-admitted", "listener accepting {:?} admitted a dialer claiming {:?}", accepted, c.sni);
                vensure!(cert_accepted, "c14:foreign-certificate-admitted", "listener accepting {:?} admitted a dialer claiming {:?} whose certificate is issued for {:?}", accepted, c.sni, c.cert_names);
            }
            vensure!(l.net.peers().contains(&z_id) == admitted, "c14:listing-disagrees", "dialer admitted={admitted} but listener lists it = {}", l.net.peers().contains(&z_id));
            // completeness only for exact, plain names (the reference is deliberately lenient elsewhere)
            if !c.no_sni && accepted.contains(&c.sni) && c.cert_names.iter().any(|n| accepted.contains(n) && plain(n)) && plain(&c.sni) {
                vensure!(admitted, "c14:same-network-refused", "listener accepting {:?} refused a dialer claiming {:?} with a certificate for {:?}: {:?}", accepted, c.sni, c.cert_names, r.map(|r| r.map(|_| ())));
            }
            obs.label(if admitted { "dialer-admitted" } else { "dialer-refused" });
            if sni_accepted && !cert_accepted { obs.label("sni-accepted-but-certificate-for-another-name"); obs.nontrivial(&c); }
            if !sni_accepted && cert_accepted { obs.label("certificate-ok-but-foreign-sni"); obs.nontrivial(&c); }
        } else {
            // the honest node dials an impostor listener presenting a certificate for `cert_names`
            let sni_seen = Arc::new(Mutex::new(Vec::new()));
            let ep = adv::raw_endpoint(&sim.fabric, node_addr(3), Some(adv::server_config(&presented, false, seen, sni_seen.clone()))).map_err(|e| Fail::Inconclusive(e.to_string()))?;
            let ep2 = ep.clone();
            tokio::spawn(async move {
                loop {
                    match adv::accept_and_ack(&ep2).await {
                        Ok(conn) => { tokio::spawn(async move { conn.closed().await; }); }
                        Err(e) if e == adv::ENDPOINT_CLOSED => return,
                        Err(_) => continue,
                    }
                }
            });
            let r = if c.pinned { obs.label("honest-dial-pinned"); within(20_000, l.net.connect_with_peer_id(node_addr(3), z_id)).await } else { within(20_000, l.net.connect(node_addr(3))).await };
            let ok = matches!(r, Ok(Ok(_)));
            // a dialer always uses its primary name
            let claimed = sni_seen.lock().unwrap().clone();
            for s in &claimed {
                vensure!(s.as_deref() == Some(c.listener.primary_name().as_str()), "c14:dialer-used-other-name", "a node with primary {:?} (alternate {:?}) dialed claiming {:?}", c.listener.primary_name(), c.listener.alt_name(), s);
            }
            let valid_for_primary = cert_ok_for(&[c.listener.primary_name()]);
            if ok {
                vensure!(valid_for_primary, "c14:foreign-certificate-admitted", "dialer with primary {:?} accepted a listener whose certificate is issued for {:?}", c.listener.primary_name(), c.cert_names);
            } else if valid_for_primary && c.cert_names.iter().any(|n| *n == c.listener.primary_name()) && c.cert_names.iter().all(|n| plain(n)) {
                vfail!("c14:same-network-refused", "dialer with primary {:?} refused a listener with a certificate for {:?}: {:?}", c.listener.primary_name(), c.cert_names, r.map(|r| r.map(|_| ()).map_err(|e| e.to_string())));
            }
            obs.label(if ok { "listener-accepted" } else { "listener-refused" });
            if !valid_for_primary { obs.nontrivial(&c); }
        }
        sim.health()?;
        check_no_panics("during adversarial name handshakes")?;
        Ok(())
    })
}

pub struct Adversarial;
impl Part for Adversarial {
    type Case = AdvCase;
    fn name(&self) -> &'static str { "adversarial-names" }
    fn rule(&self) -> &'static str {
        "an adversarial raw QUIC endpoint with a valid key dials an honest listener claiming SNI s (or sending no server name at all) while presenting a certificate with SANs c (s and c chosen independently from the name pool: the grid names, wildcards, label-suffix/prefix relatives, case variants, random), optionally after the same key paid a fully valid visit and disconnected (so that nothing remembered about a key can replace the checks), or is dialed by an honest node - plainly or with the impostor's (genuinely owned) identity pinned - and presents c; oracle: admitted => s is an accepted name AND the certificate is valid for an accepted name (x509 reference); the honest dialer only ever claims its primary name and accepts only certificates valid for it; matching configurations are admitted; non-trivial = SNI accepted but certificate issued for another name (the path the suite never reaches) or vice versa; distinct by case"
    }
    fn strategy(&self, _t: Tier) -> BoxedStrategy<AdvCase> {
        let cfg = (0u8..6, prop::option::of(0u8..6)).prop_map(|(primary, alternate)| NameCfg { primary, alternate: alternate.filter(|a| *a != primary) });
        (cfg, name_pool(), prop::collection::vec(name_pool(), 1..3), any::<bool>(), prop::bool::weighted(0.3), prop::bool::weighted(0.15), any::<bool>())
            .prop_map(|(listener, sni, cert_names, z_dials, prior_valid_visit, no_sni, pinned)| AdvCase { listener, sni, cert_names, z_dials, prior_valid_visit, no_sni, pinned })
            .boxed()
    }
    fn run(&self, c: &AdvCase, obs: &mut Obs) -> Result<(), Fail> { adv_case(c, obs) }
}

// ------------------------------------------------------------------ verifier level

#[derive(Clone, Debug, Serialize, Deserialize, PartialEq, Eq, Hash)]
pub struct VerCase {
    pub accepted: Vec<String>,
    pub requested: String,
    pub cert_names: Vec<String>,
    pub client_side: bool,
}

pub struct VerifierNames;
impl Part for VerifierNames {
    type Case = VerCase;
    fn name(&self) -> &'static str { "verifier-names" }
    fn rule(&self) -> &'static str {
        "certificate verifiers (hooks H5) with arbitrary accepted-name sets, requested names and certificate SANs from the name pool; oracle: server-certificate check accepts => requested name is in the accepted set and the SAN matches it; client-certificate check accepts => the SAN matches some accepted name; exact matches are accepted; non-trivial = requested/SAN/accepted not all equal; distinct by case"
    }
    fn strategy(&self, _t: Tier) -> BoxedStrategy<VerCase> {
        (prop::collection::vec(name_pool(), 1..3), name_pool(), prop::collection::vec(name_pool(), 1..3), any::<bool>())
            .prop_map(|(accepted, requested, cert_names, client_side)| VerCase { accepted, requested, cert_names, client_side })
            .boxed()
    }
    fn run(&self, c: &VerCase, obs: &mut Obs) -> Result<(), Fail> {
        let seed = key_seed(300);
        let names = c.cert_names.clone();
        let Ok(cert) = std::panic::catch_unwind(move || adv::self_signed(&seed, &names, Validity::Valid)) else {
            crate::panics::clear_thread();
            obs.label("discarded:certificate-not-constructible");
            return Ok(());
        };
        let now = std::time::SystemTime::now().duration_since(std::time::UNIX_EPOCH).unwrap().as_secs();
        if c.client_side {
            let imp = ic::verify_client_cert(&c.accepted, &cert, &[], now).is_ok();
            let reference = x509ref::accept(&cert, &c.accepted, now).is_ok();
            vensure!(!imp || reference, "c14:foreign-certificate-admitted", "client-certificate check with accepted names {:?} accepted a certificate for {:?}", c.accepted, c.cert_names);
            if c.accepted.iter().any(|a| c.cert_names.contains(a) && plain(a)) && c.accepted.iter().all(|a| plain(a)) && c.cert_names.iter().all(|n| plain(n)) {
                vensure!(imp, "c14:same-network-refused", "client-certificate check with accepted names {:?} refused a certificate for {:?}", c.accepted, c.cert_names);
            }
        } else {
            let imp = ic::verify_server_cert(&c.accepted, None, &cert, &[], &c.requested, now).is_ok();
            if imp {
                vensure!(c.accepted.contains(&c.requested), "c14:foreign-sni-admitted", "server-certificate check with names {:?} accepted a handshake for requested name {:?}", c.accepted, c.requested);
                vensure!(x509ref::accept(&cert, &[c.requested.clone()], now).is_ok(), "c14:foreign-certificate-admitted", "server-certificate check for {:?} accepted a certificate for {:?}", c.requested, c.cert_names);
            } else if c.accepted.contains(&c.requested) && c.cert_names.contains(&c.requested) && plain(&c.requested) && c.cert_names.iter().all(|n| plain(n)) {
                vfail!("c14:same-network-refused", "server-certificate check with names {:?} refused requested {:?} with a certificate for {:?}", c.accepted, c.requested, c.cert_names);
            }
        }
        if !(c.accepted.len() == 1 && c.cert_names.len() == 1 && c.accepted[0] == c.requested && c.cert_names[0] == c.requested) {
            obs.nontrivial(c);
        }
        Ok(())
    }
}

pub fn run(tier: Tier) -> i32 {
    let mut ctx = Ctx::new("C14", tier);
    ctx.assume("names are lower-case DNS names; X.509 wildcard certificates count as valid for the names they cover");
    ctx.assume("trusted base: rustls/webpki name matching below the anemo verifiers, x509-parser for the reference");
    let rep = grid(&ctx.known);
    ctx.push_report(rep);
    ctx.run_part(Adversarial, tier.pick(10_000, 1_000_000));
    ctx.run_part(VerifierNames, tier.pick(20_000, 4_000_000));
    ctx.finish()
}
