pub mod c01;
pub mod c02;
pub mod c03;
pub mod c04;
pub mod c05;
pub mod c06;
pub mod c07;
pub mod c08;
pub mod c08_racer;
pub mod c08_busy;
pub mod c09;
pub mod c10;
pub mod c11;
pub mod c12;
pub mod c13;
pub mod c14;
pub mod c15;
pub mod c16;
pub mod c17;
pub mod c18;
pub mod c19;
pub mod c20;

use crate::core::Tier;

pub fn run(id: &str, tier: Tier) -> Option<i32> {
    Some(match id {
        "C01" => c01::run(tier),
        "C02" => c02::run(tier),
        "C03" => c03::run(tier),
        "C04" => c04::run(tier),
        "C05" => c05::run(tier),
        "C06" => c06::run(tier),
        "C07" => c07::run(tier),
        "C08" => c08::run(tier),
        "C09" => c09::run(tier),
        "C10" => c10::run(tier),
        "C11" => c11::run(tier),
        "C12" => c12::run(tier),
        "C13" => c13::run(tier),
        "C14" => c14::run(tier),
        "C15" => c15::run(tier),
        "C16" => c16::run(tier),
        "C17" => c17::run(tier),
        "C18" => c18::run(tier),
        "C19" => c19::run(tier),
        "C20" => c20::run(tier),
        _ => return None,
    })
}

/// Replays one saved case; returns (held, message).
pub fn replay(property: &str, part: &str, case: &serde_json::Value) -> Option<Result<(), (String, String, u32)>> {
    use crate::core::replay_part;
    if let Some(target) = part.strip_prefix("fuzz:") {
        return Some(crate::fuzzrun::replay(target, case));
    }
    Some(match (property, part) {
        ("C07", "roundtrip") => replay_part(&c07::RoundTrip, case, 1),
        ("C07", "prefixes") => replay_part(&c07::Prefixes, case, 1),
        ("C07", "encode-sequences") => replay_part(&c07::EncodeSequences, case, 1),
        ("C07", "arbitrary-bytes") => replay_part(&c07::ArbitraryBytes, case, 1),
        ("C16", "tables") => replay_part(&c16::Tables, case, 1),
        ("C18", "histories") => replay_part(&c18::Histories, case, 1),
        ("C20", "histories") => replay_part(&c20::Histories, case, 1),
        ("C19", "histories") => replay_part(&c19::Histories, case, 5),
        ("C19", "hint-race") => replay_part(&c19::HintRace, case, 3),
        ("C11", "queued-calls") => replay_part(&c11::Queued, case, 1),
        ("C16", "over-the-wire") => replay_part(&c16::OverTheWire, case, 1),
        ("C18", "many-peers") => replay_part(&c18::ManyPeers, case, 1),
        ("C18", "first-contact-race") => replay_part(&c18::FirstContactRace, case, 3),
        ("C18", "over-network") => replay_part(&c18::OverNetwork, case, 1),
        ("C18", "cancel-storm") => replay_part(&c18::CancelStorm, case, 1),
        ("C09", "disconnect-under-readers") => replay_part(&c09::DisconnectUnderReaders, case, 3),
        ("C05", "close-notice-race") => replay_part(&c05::CloseNoticeRace, case, 3),
        ("C02", "traffic") => replay_part(&c02::Traffic(4_000_000), case, 1),
        ("C11", "calls") => replay_part(&c11::Calls, case, 1),
        ("C15", "codec") => replay_part(&c15::Codec, case, 1),
        ("C15", "network") => replay_part(&c15::Net, case, 1),
        ("C15", "huge-limits") => replay_part(&c15::HugeLimits, case, 1),
        ("C15", "tiny-limits") => replay_part(&c15::TinyLimits, case, 1),
        ("C15", "no-limit") => replay_part(&c15::NoLimit, case, 1),
        ("C12", "abandon-sweep") => replay_part(&c12::Sweeps, case, 1),
        ("C12", "abandon-history") => replay_part(&c12::Histories, case, 1),
        ("C01", "single-byte-mutations") => {
            // {"cert_key","offset","value","verifier"}: the same mutation as a verifier case
            let c = c01::VerifierCase {
                victim_key: case["cert_key"].as_u64().unwrap_or(0),
                adversary_key: 0,
                kind: c01::CertKind::ByteAt(case["offset"].as_u64().unwrap_or(0) as usize, case["value"].as_u64().unwrap_or(0) as u8),
                verifier: case["verifier"].as_u64().unwrap_or(0) as u8,
                with_intermediate: false,
            };
            replay_part(&c01::Verifiers, &serde_json::to_value(&c).unwrap(), 1)
        }
        ("C07", "enumerations") => {
            let rep = c07::enumerations("C07", &crate::core::KnownFindings::default());
            match rep.violation {
                None => Ok(()),
                Some(v) => Err((v.key, v.msg, 1)),
            }
        }
        ("C01", "verifier") => replay_part(&c01::Verifiers, case, 1),
        ("C01", "handshake-signature") => replay_part(&c01::Signatures, case, 1),
        ("C01", "handshake") => replay_part(&c01::Handshakes, case, 1),
        ("C01", "message") => replay_part(&c01::Messages, case, 1),
        ("C03", "dials") => replay_part(&c03::Dials, case, 1),
        ("C14", "name-grid") => {
            let d: Result<c14::NameCfg, _> = serde_json::from_value(case["dialer"].clone());
            let l: Result<c14::NameCfg, _> = serde_json::from_value(case["listener"].clone());
            match (d, l) {
                (Ok(d), Ok(l)) => match c14::honest_dial(&d, &l) {
                    Ok(_) => Ok(()),
                    Err(crate::core::Fail::Violation { key, msg }) => Err((key, msg, 1)),
                    Err(crate::core::Fail::Inconclusive(m)) => Err(("inconclusive".into(), m, 0)),
                },
                _ => Err(("replay:decode".into(), "bad grid case".into(), 0)),
            }
        }
        ("C14", "adversarial-names") => replay_part(&c14::Adversarial, case, 1),
        ("C14", "verifier-names") => replay_part(&c14::VerifierNames, case, 1),
        ("C10", "admission-history") => replay_part(&c10::Histories, case, 1),
        ("C06", "hostile-scripts") => replay_part(&c06::Scripts, case, 1),
        ("C04", "driver-histories") => replay_part(&c04::DriverHistories, case, 1),
        ("C04", "network-histories") => replay_part(&c04::NetworkHistories, case, 1),
        ("C04", "thread-stress") => replay_part(&c04::ThreadStress, case, 10),
        ("C05", "tie-break") => replay_part(&c05::Decision, case, 1),
        ("C05", "both-sides") => replay_part(&c05::BothSidesPart, case, 1),
        ("C05", "networks-realtime") => replay_part(&c05::NetworksRealTime, case, 2),
        ("C05", "networks") => replay_part(&c05::Networks, case, 1),
        ("C09", "disconnect-under-contention") => replay_part(&c09::DisconnectUnderContention, case, 10),
        ("C09", "histories") => replay_part(&c09::Histories, case, 1),
        ("C13", "backoff-arithmetic") => replay_part(&c13::Backoff, case, 1),
        ("C13", "schedules") => replay_part(&c13::Schedules, case, 1),
        ("C17", "definitions") => replay_part(&c17::Definitions, case, 1),
        ("C17", "typed-calls") => replay_part(&c17::Calls, case, 1),
        ("C08", "shutdown-scenarios") => replay_part(&c08::Shutdowns, case, 1),
        ("C08", "teardown-racer") => replay_part(&c08_racer::Racer, case, 10),
        ("C08", "busy-handlers") => replay_part(&c08_busy::BusyHandlers, case, 5),
        _ => return None,
    })
}

/// Entry point of child processes (C08 racer).
pub fn child(args: &[String]) -> i32 {
    c08_racer::child_main(args)
}
