pub mod c07;

use crate::core::Tier;

pub fn run(id: &str, tier: Tier) -> Option<i32> {
    Some(match id {
        "C07" => c07::run(tier),
        _ => return None,
    })
}

/// Replays one saved case; returns (held, message).
pub fn replay(property: &str, part: &str, case: &serde_json::Value) -> Option<Result<(), (String, String, u32)>> {
    use crate::core::replay_part;
    Some(match (property, part) {
        ("C07", "roundtrip") => replay_part(&c07::RoundTrip, case, 1),
        ("C07", "prefixes") => replay_part(&c07::Prefixes, case, 1),
        ("C07", "arbitrary-bytes") => replay_part(&c07::ArbitraryBytes, case, 1),
        _ => return None,
    })
}

/// Entry point of child processes (C08 racer).
pub fn child(_args: &[String]) -> i32 {
    2
}
