//! C17 — generated typed clients reach the matching typed handlers.

use crate::core::*;
use crate::simnet::*;
use crate::{vensure, vfail};
use anemo::rpc::Status;
use anemo::types::response::StatusCode;
use anemo::{Request, Response, Router};
use bytes::Bytes;
use proptest::prelude::*;
use serde::{Deserialize, Serialize};
use std::collections::BTreeMap;
use std::sync::{Arc, Mutex};

#[derive(Clone, Debug, Default, Serialize, Deserialize, PartialEq, Eq, Hash)]
pub struct Msg {
    pub id: u64,
    pub text: String,
    pub blob: Vec<u8>,
    /// last field: when set, serializing the message fails half-way (after the other fields)
    #[serde(default)]
    pub poison: Poison,
}

/// A field that refuses to be serialized when set (messages that cannot be encoded exist:
/// maps with non-string keys under JSON, sequences of unknown length under bincode, ...).
#[derive(Clone, Copy, Debug, Default, PartialEq, Eq, Hash)]
pub struct Poison(pub bool);
thread_local! {
    /// Poison only bites while typed calls run (the harness itself serializes cases to JSON for replay files).
    static POISON_ARMED: std::cell::Cell<bool> = const { std::cell::Cell::new(false) };
}
struct Armed;
impl Armed {
    fn new() -> Self { POISON_ARMED.with(|a| a.set(true)); Armed }
}
impl Drop for Armed {
    fn drop(&mut self) { POISON_ARMED.with(|a| a.set(false)); }
}

impl Serialize for Poison {
    fn serialize<S: serde::Serializer>(&self, s: S) -> Result<S::Ok, S::Error> {
        if self.0 && !POISON_ARMED.with(|a| a.get()) {
            return s.serialize_bool(true);
        }
        if self.0 {
            Err(serde::ser::Error::custom("this message cannot be serialized"))
        } else {
            s.serialize_bool(false)
        }
    }
}
impl<'de> Deserialize<'de> for Poison {
    fn deserialize<D: serde::Deserializer<'de>>(d: D) -> Result<Self, D::Error> {
        bool::deserialize(d).map(Poison)
    }
}

pub mod s1 {
    include!(concat!(env!("OUT_DIR"), "/Echo.rs"));
}
pub mod s2 {
    include!(concat!(env!("OUT_DIR"), "/a.b.Echo.rs"));
}
pub mod s3 {
    include!(concat!(env!("OUT_DIR"), "/example.Greeter.rs"));
}
pub mod s4 {
    include!(concat!(env!("OUT_DIR"), "/opt.Maybe.rs"));
}

// ============================================================ (i) token level, random definitions

#[derive(Clone, Debug, Serialize, Deserialize, PartialEq, Eq, Hash)]
pub struct MethodDef {
    pub name: String,
    pub route_name: String,
    pub json: bool,
    pub raw: bool,
}

#[derive(Clone, Debug, Serialize, Deserialize, PartialEq, Eq, Hash)]
pub struct ServiceDef {
    pub name: String,
    pub package: String,
    pub methods: Vec<MethodDef>,
    /// with an empty package: call `.package("")` explicitly instead of leaving it unset
    #[serde(default)]
    pub package_set_explicitly: bool,
}

fn build_service(d: &ServiceDef) -> anemo_build::manual::Service {
    let mut b = anemo_build::manual::Service::builder().name(&d.name);
    if !d.package.is_empty() || d.package_set_explicitly {
        b = b.package(&d.package);
    }
    for m in &d.methods {
        b = b.method(
            anemo_build::manual::Method::builder()
                .name(&m.name)
                .route_name(&m.route_name)
                .request_type("crate::Req")
                .response_type("crate::Resp")
                .codec_path(if m.json { "anemo::rpc::codec::JsonCodec" } else { "anemo::rpc::codec::BincodeCodec" })
                .server_handler_return_raw_bytes(m.raw)
                .build(),
        );
    }
    b.build()
}

/// String literals inside a token tree, recursively.
fn literals(ts: proc_macro2::TokenStream, out: &mut Vec<String>) {
    for t in ts {
        match t {
            proc_macro2::TokenTree::Group(g) => literals(g.stream(), out),
            proc_macro2::TokenTree::Literal(l) => {
                if let Ok(s) = syn::parse_str::<syn::LitStr>(&l.to_string()) {
                    out.push(s.value());
                }
            }
            _ => {}
        }
    }
}

fn idents(ts: proc_macro2::TokenStream, out: &mut Vec<String>) {
    for t in ts {
        match t {
            proc_macro2::TokenTree::Group(g) => idents(g.stream(), out),
            proc_macro2::TokenTree::Ident(i) => out.push(i.to_string()),
            _ => {}
        }
    }
}

use quote::ToTokens;
use syn::visit::Visit;

#[derive(Default)]
struct ClientScan {
    /// method name -> string literals starting with '/' found in its body
    routes: BTreeMap<String, Vec<String>>,
}
impl<'ast> Visit<'ast> for ClientScan {
    fn visit_impl_item_fn(&mut self, f: &'ast syn::ImplItemFn) {
        let mut lits = Vec::new();
        literals(f.block.to_token_stream(), &mut lits);
        self.routes.insert(f.sig.ident.to_string(), lits.into_iter().filter(|l| l.starts_with('/')).collect());
    }
}

#[derive(Default)]
struct ServerScan {
    /// route literal -> identifiers used in the arm
    arms: Vec<(String, Vec<String>)>,
    /// `XSvc` -> trait methods it invokes
    svc_calls: BTreeMap<String, Vec<String>>,
    service_name: Option<String>,
    trait_methods: Vec<String>,
}
impl<'ast> Visit<'ast> for ServerScan {
    fn visit_expr_match(&mut self, m: &'ast syn::ExprMatch) {
        let scrutinee = m.expr.to_token_stream().to_string().replace(' ', "");
        if scrutinee.contains("req.route()") {
            for arm in &m.arms {
                if let syn::Pat::Lit(l) = &arm.pat {
                    if let syn::Lit::Str(s) = &l.lit {
                        let mut ids = Vec::new();
                        idents(arm.body.to_token_stream(), &mut ids);
                        self.arms.push((s.value(), ids));
                    }
                }
            }
        }
        syn::visit::visit_expr_match(self, m);
    }
    fn visit_item_impl(&mut self, i: &'ast syn::ItemImpl) {
        let self_ty = i.self_ty.to_token_stream().to_string();
        let name = self_ty.split(|c: char| !c.is_alphanumeric() && c != '_').next().unwrap_or("").to_string();
        if name.ends_with("Svc") {
            struct Calls(Vec<String>);
            impl<'a> Visit<'a> for Calls {
                fn visit_expr_method_call(&mut self, c: &'a syn::ExprMethodCall) {
                    self.0.push(c.method.to_string());
                    syn::visit::visit_expr_method_call(self, c);
                }
            }
            let mut c = Calls(Vec::new());
            c.visit_item_impl(i);
            self.svc_calls.entry(name).or_default().extend(c.0);
        }
        for it in &i.items {
            if let syn::ImplItem::Const(c) = it {
                if c.ident == "SERVICE_NAME" {
                    if let syn::Expr::Lit(l) = &c.expr {
                        if let syn::Lit::Str(s) = &l.lit {
                            self.service_name = Some(s.value());
                        }
                    }
                }
            }
        }
        syn::visit::visit_item_impl(self, i);
    }
    fn visit_item_trait(&mut self, t: &'ast syn::ItemTrait) {
        for it in &t.items {
            if let syn::TraitItem::Fn(f) = it {
                self.trait_methods.push(f.sig.ident.to_string());
            }
        }
    }
}

pub fn token_case(d: &ServiceDef, obs: &mut Obs) -> Result<(), Fail> {
    let svc = build_service(d);
    let client = anemo_build::client::generate(&svc);
    let server = anemo_build::server::generate(&svc);
    let cfile: syn::File = match syn::parse2(client) {
        Ok(f) => f,
        Err(e) => vfail!("c17:client-not-rust", "generated client does not parse: {e}"),
    };
    let sfile: syn::File = match syn::parse2(server) {
        Ok(f) => f,
        Err(e) => vfail!("c17:server-not-rust", "generated server does not parse: {e}"),
    };
    let mut cs = ClientScan::default();
    cs.visit_file(&cfile);
    let mut ss = ServerScan::default();
    ss.visit_file(&sfile);
    let full = if d.package.is_empty() { d.name.clone() } else { format!("{}.{}", d.package, d.name) };
    vensure!(ss.service_name.as_deref() == Some(full.as_str()), "c17:service-name", "the server registers under SERVICE_NAME {:?}; package {:?} + name {:?} gives {:?}", ss.service_name, d.package, d.name, full);
    for m in &d.methods {
        let want = format!("/{}/{}", full, m.route_name);
        let got = cs.routes.get(&m.name).cloned().unwrap_or_default();
        vensure!(got == vec![want.clone()], "c17:client-route", "client method {:?} sends to {:?}; expected exactly [{:?}]", m.name, got, want);
        // under the prefix the router registers for the service
        let prefix = format!("/{}/", ss.service_name.clone().unwrap_or_default());
        vensure!(want.starts_with(&prefix) && got[0].starts_with(&prefix), "c17:route-outside-prefix", "route {:?} is not under the registered prefix {:?}", got[0], prefix);
        let arms: Vec<&(String, Vec<String>)> = ss.arms.iter().filter(|(l, _)| *l == want).collect();
        vensure!(arms.len() == 1, "c17:server-route", "the server has {} match arms for {:?} (arms: {:?})", arms.len(), want, ss.arms.iter().map(|a| &a.0).collect::<Vec<_>>());
        let svc_ident = format!("{}Svc", m.route_name);
        vensure!(arms[0].1.contains(&svc_ident), "c17:server-dispatch", "the arm for {:?} does not dispatch to {svc_ident}", want);
        let calls = ss.svc_calls.get(&svc_ident).cloned().unwrap_or_default();
        vensure!(calls.contains(&m.name), "c17:server-dispatch", "{svc_ident} does not invoke the trait method {:?} (it calls {:?})", m.name, calls);
        vensure!(ss.trait_methods.contains(&m.name), "c17:trait-method-missing", "the generated trait lacks method {:?}", m.name);
    }
    vensure!(ss.arms.len() == d.methods.len(), "c17:server-route", "{} match arms for {} methods", ss.arms.len(), d.methods.len());
    obs.evals(d.methods.len() as u64);
    obs.label(if d.package.is_empty() { if d.package_set_explicitly { "package:empty-set-explicitly" } else { "package:unset" } } else if d.package.contains('.') { "package:dotted" } else { "package:single" });
    if !d.methods.is_empty() {
        obs.nontrivial(d);
    }
    Ok(())
}

fn ident_strategy() -> BoxedStrategy<String> {
    "[a-zA-Z][a-zA-Z0-9_]{0,8}"
        .prop_filter("not a keyword", |s| syn::parse_str::<syn::Ident>(s).is_ok() && !["self", "Self", "super", "crate", "new", "inner", "inner_mut", "into_inner", "from_arc", "clone", "call", "poll_ready"].contains(&s.as_str()))
        .boxed()
}

pub struct Definitions;
impl Part for Definitions {
    type Case = ServiceDef;
    fn name(&self) -> &'static str { "definitions" }
    fn rule(&self) -> &'static str {
        "random service definitions (identifier names, package unset / explicitly empty / single / dotted, 0-8 methods with distinct names and distinct route names, either codec, raw-bytes flag) through client::generate and server::generate of the CURRENT anemo-build; the token streams are parsed with syn; oracle: SERVICE_NAME == [package '.'] name; for every method the client's only route literal == '/' + SERVICE_NAME + '/' + route_name (so it lies under the prefix the router registers), the server has exactly one match arm with that literal, the arm dispatches to <route_name>Svc, and that service invokes the trait method of the same name; non-trivial = definition with >=1 method; distinct by definition"
    }
    fn strategy(&self, _t: Tier) -> BoxedStrategy<ServiceDef> {
        let pkg = prop_oneof![2 => Just(String::new()), 2 => "[a-z][a-z0-9]{0,6}", 3 => "[a-z][a-z0-9]{0,5}(\\.[a-z][a-z0-9]{0,5}){1,3}"];
        let method = (ident_strategy(), ident_strategy(), any::<bool>(), prop::bool::weighted(0.2)).prop_map(|(name, route_name, json, raw)| MethodDef { name, route_name, json, raw });
        (ident_strategy(), pkg, prop::collection::vec(method, 0..9), any::<bool>())
            .prop_map(|(name, package, mut methods, package_set_explicitly)| {
                // distinct method names and route names (a definition with duplicates does not compile anyway)
                let mut seen_n = std::collections::HashSet::new();
                let mut seen_r = std::collections::HashSet::new();
                methods.retain(|m| seen_n.insert(m.name.clone()) && seen_r.insert(m.route_name.clone()));
                ServiceDef { name, package, methods, package_set_explicitly }
            })
            .boxed()
    }
    fn run(&self, c: &ServiceDef, obs: &mut Obs) -> Result<(), Fail> { token_case(c, obs) }
}

// ============================================================ (ii) the compiled family

#[derive(Clone, Default)]
pub struct Log(Arc<Mutex<Vec<(String, Msg)>>>);

impl Log {
    /// names of the handler methods invoked so far, in order
    pub fn invoked(&self) -> Vec<String> {
        self.0.lock().unwrap().iter().map(|(n, _)| n.clone()).collect()
    }
}

/// Planned handler behaviour, a pure function of the request message.
fn plan(tag: &str, m: &Msg) -> Result<Response<Msg>, Status> {
    if m.text.starts_with("errnomsg:") {
        // an error status that carries headers but no message (what e.g. a rate limiter returns)
        let code = [StatusCode::BadRequest, StatusCode::NotFound, StatusCode::RequestTimeout, StatusCode::TooManyRequests, StatusCode::InternalServerError, StatusCode::VersionNotSupported, StatusCode::Unknown][(m.id % 7) as usize];
        let mut s = Status::new(code).with_header("x-tag", tag);
        for (i, b) in m.blob.iter().take(3).enumerate() {
            s = s.with_header(format!("x-h{i}"), format!("v{b}"));
        }
        return Err(s);
    }
    if let Some(rest) = m.text.strip_prefix("err:") {
        let code = [StatusCode::BadRequest, StatusCode::NotFound, StatusCode::RequestTimeout, StatusCode::TooManyRequests, StatusCode::InternalServerError, StatusCode::VersionNotSupported, StatusCode::Unknown][(m.id % 7) as usize];
        let mut s = Status::new_with_message(code, format!("{tag}:{rest}"));
        for (i, b) in m.blob.iter().take(3).enumerate() {
            s = s.with_header(format!("x-h{i}"), format!("v{b}"));
        }
        if m.blob.len() % 4 == 3 {
            // a handler that passes on the headers of an error it received downstream: among them is the
            // downstream's status-message; its own message is the one the caller must see
            s = s.with_header("status-message", "downstream said something else");
        }
        Err(s)
    } else {
        // "poisonresp:" = the handler answers with a message that cannot be serialized
        Ok(Response::new(Msg { id: m.id.wrapping_add(1), text: format!("{tag}|{}", m.text), blob: m.blob.iter().rev().cloned().collect(), poison: Poison(m.text.starts_with("poisonresp:")) }).with_header("x-handler", tag))
    }
}

macro_rules! impl_echo {
    ($module:ident, $tag:expr, $raw_json:expr) => {
        #[anemo::async_trait]
        impl $module::echo_server::Echo for Log {
            async fn ping(&self, r: Request<Msg>) -> Result<Response<Msg>, Status> {
                let tag = concat!($tag, ".ping");
                self.0.lock().unwrap().push((tag.to_string(), r.body().clone()));
                plan(tag, r.body())
            }
            async fn ping_pong(&self, r: Request<Msg>) -> Result<Response<Msg>, Status> {
                let tag = concat!($tag, ".ping_pong");
                self.0.lock().unwrap().push((tag.to_string(), r.body().clone()));
                plan(tag, r.body())
            }
            async fn pin(&self, r: Request<Msg>) -> Result<Response<Msg>, Status> {
                let tag = concat!($tag, ".pin");
                self.0.lock().unwrap().push((tag.to_string(), r.body().clone()));
                plan(tag, r.body())
            }
            async fn raw(&self, r: Request<Msg>) -> Result<Response<Bytes>, Status> {
                let tag = concat!($tag, ".raw");
                self.0.lock().unwrap().push((tag.to_string(), r.body().clone()));
                plan(tag, r.body()).and_then(|resp| {
                    let (parts, body) = resp.into_parts();
                    let bytes = if $raw_json { serde_json::to_vec(&body).map_err(|e| e.to_string()) } else { bincode::serialize(&body).map_err(|e| e.to_string()) };
                    // a raw-bytes handler encodes by itself; what it cannot encode it reports as an error status
                    bytes.map(|b| Response::from_parts(parts, Bytes::from(b))).map_err(Status::internal)
                })
            }
        }
    };
}
impl_echo!(s1, "s1", false);
impl_echo!(s2, "s2", true);

#[anemo::async_trait]
impl s3::greeter_server::Greeter for Log {
    async fn say_hello(&self, r: Request<Msg>) -> Result<Response<Msg>, Status> {
        self.0.lock().unwrap().push(("s3.say_hello".into(), r.body().clone()));
        plan("s3.say_hello", r.body())
    }
    async fn x(&self, r: Request<Msg>) -> Result<Response<Msg>, Status> {
        self.0.lock().unwrap().push(("s3.x".into(), r.body().clone()));
        plan("s3.x", r.body())
    }
    async fn sayhello(&self, r: Request<Msg>) -> Result<Response<Msg>, Status> {
        self.0.lock().unwrap().push(("s3.sayhello".into(), r.body().clone()));
        plan("s3.sayhello", r.body())
    }
    async fn z9(&self, r: Request<Msg>) -> Result<Response<Msg>, Status> {
        self.0.lock().unwrap().push(("s3.z9".into(), r.body().clone()));
        plan("s3.z9", r.body())
    }
}

#[anemo::async_trait]
impl s4::maybe_server::Maybe for Log {
    async fn maybe(&self, r: Request<Option<Msg>>) -> Result<Response<Option<Msg>>, Status> {
        let m = r.body().clone().unwrap_or_default();
        self.0.lock().unwrap().push(("s4.maybe".into(), m.clone()));
        plan("s4.maybe", &m).map(|resp| resp.map(Some))
    }
}

pub const METHODS: [&str; 13] = ["s1.ping", "s1.ping_pong", "s1.pin", "s1.raw", "s2.ping", "s2.ping_pong", "s2.pin", "s2.raw", "s3.say_hello", "s3.x", "s3.sayhello", "s3.z9", "s4.maybe"];
/// (route, json codec) per method, from the reference formula
pub fn route_of(method: &str) -> (&'static str, bool) {
    match method {
        "s1.ping" => ("/Echo/Ping", false),
        "s1.ping_pong" => ("/Echo/PingPong", false),
        "s1.pin" => ("/Echo/Pin", true),
        "s1.raw" => ("/Echo/Raw", false),
        "s2.ping" => ("/a.b.Echo/Ping", true),
        "s2.ping_pong" => ("/a.b.Echo/PingPong", false),
        "s2.pin" => ("/a.b.Echo/Pin", false),
        "s2.raw" => ("/a.b.Echo/Raw", true),
        "s3.say_hello" => ("/example.Greeter/SayHello", false),
        "s3.x" => ("/example.Greeter/Ping", false),
        "s3.sayhello" => ("/example.Greeter/Say", true),
        "s4.maybe" => ("/opt.Maybe/Maybe", true),
        _ => ("/example.Greeter/say_hello", false),
    }
}

pub fn router(log: &Log) -> Router {
    router_assembled(log, 0)
}

pub fn router_assembled(log: &Log, assembly: u8) -> Router {
    let (a, b, c) = (s1::echo_server::EchoServer::new(log.clone()), s2::echo_server::EchoServer::new(log.clone()), s3::greeter_server::GreeterServer::new(log.clone()));
    let d = s4::maybe_server::MaybeServer::new(log.clone());
    match assembly % 3 {
        0 => Router::new().add_rpc_service(a).add_rpc_service(b).add_rpc_service(c).add_rpc_service(d),
        1 => Router::new().add_rpc_service(a).merge(Router::new().add_rpc_service(b)).merge(Router::new().merge(Router::new().add_rpc_service(c))).merge(Router::new().add_rpc_service(d)),
        _ => {
            let plain = tower::service_fn(|_r: Request<Bytes>| async move { Ok::<_, std::convert::Infallible>(Response::new(Bytes::from_static(b"plain"))) });
            Router::new()
                .route("/plain", plain)
                .route_layer(tower::layer::util::Identity::new())
                .merge(Router::new().add_rpc_service(a).add_rpc_service(b))
                .merge(Router::new().add_rpc_service(c).route_layer(tower::layer::util::Identity::new()))
                .add_rpc_service(d)
        }
    }
}

#[derive(Clone, Debug, Serialize, Deserialize, PartialEq, Eq, Hash)]
pub enum Call {
    /// a typed call of METHODS[i] with this message
    Typed(u8, Msg),
    /// raw bytes sent to the route of METHODS[i]
    GarbageRequest(u8, #[serde(with = "crate::hexbytes")] Vec<u8>),
    /// the typed client of METHODS[i] is given this (status, body) as the response
    HostileResponse(u8, u16, #[serde(with = "crate::hexbytes")] Vec<u8>),
}

#[derive(Clone, Debug, Serialize, Deserialize, PartialEq, Eq, Hash)]
pub struct CallCase {
    pub over_network: bool,
    pub calls: Vec<Call>,
    /// how the router is put together: 0 = add_rpc_service on one router, 1 = each service added to
    /// its own router, then merged, 2 = merged into a router that already has routes and a layer
    #[serde(default)]
    pub assembly: u8,
}

async fn typed<S>(svc: S, method: &str, msg: Msg) -> Result<Response<Msg>, Status>
where
    S: tower::Service<Request<Bytes>, Response = Response<Bytes>> + Clone,
    S::Error: Into<anemo::codegen::BoxError>,
{
    match method {
        "s1.ping" => s1::echo_client::EchoClient::new(svc).ping(msg).await,
        "s1.ping_pong" => s1::echo_client::EchoClient::new(svc).ping_pong(msg).await,
        "s1.pin" => s1::echo_client::EchoClient::new(svc).pin(msg).await,
        "s1.raw" => s1::echo_client::EchoClient::new(svc).raw(msg).await,
        "s2.ping" => s2::echo_client::EchoClient::new(svc).ping(msg).await,
        "s2.ping_pong" => s2::echo_client::EchoClient::new(svc).ping_pong(msg).await,
        "s2.pin" => s2::echo_client::EchoClient::new(svc).pin(msg).await,
        "s2.raw" => s2::echo_client::EchoClient::new(svc).raw(msg).await,
        "s3.say_hello" => s3::greeter_client::GreeterClient::new(svc).say_hello(msg).await,
        "s3.x" => s3::greeter_client::GreeterClient::new(svc).x(msg).await,
        "s3.sayhello" => s3::greeter_client::GreeterClient::new(svc).sayhello(msg).await,
        "s4.maybe" => s4::maybe_client::MaybeClient::new(svc).maybe(Some(msg)).await.map(|r| r.map(|m| m.unwrap_or_default())),
        _ => s3::greeter_client::GreeterClient::new(svc).z9(msg).await,
    }
}

/// a fixed response, whatever the request
#[derive(Clone)]
struct Canned(u16, Bytes);
impl tower::Service<Request<Bytes>> for Canned {
    type Response = Response<Bytes>;
    type Error = std::convert::Infallible;
    type Future = std::future::Ready<Result<Response<Bytes>, std::convert::Infallible>>;
    fn poll_ready(&mut self, _: &mut std::task::Context<'_>) -> std::task::Poll<Result<(), Self::Error>> {
        std::task::Poll::Ready(Ok(()))
    }
    fn call(&mut self, _r: Request<Bytes>) -> Self::Future {
        let mut resp = Response::new(self.1.clone()).with_status(StatusCode::new(self.0).unwrap_or(StatusCode::Unknown));
        resp.headers_mut().insert("status-message".into(), "canned".into());
        std::future::ready(Ok(resp))
    }
}

/// Whether `bytes` are a message of the method's type (s4.maybe takes Option<Msg>: JSON `null` is one, an empty payload is not).
fn decodes_for(method: &str, json: bool, bytes: &[u8]) -> bool {
    if method == "s4.maybe" { return serde_json::from_slice::<Option<Msg>>(bytes).is_ok(); }
    if json { serde_json::from_slice::<Msg>(bytes).is_ok() } else { bincode::deserialize::<Msg>(bytes).is_ok() }
}

async fn run_calls<S>(svc: S, log: &Log, calls: &[Call], obs: &mut Obs) -> Result<(), Fail>
where
    S: tower::Service<Request<Bytes>, Response = Response<Bytes>> + Clone,
    S::Error: Into<anemo::codegen::BoxError> + std::fmt::Debug,
{
    for (i, c) in calls.iter().enumerate() {
        match c {
            Call::Typed(mi, msg) => {
                let method = METHODS[*mi as usize % METHODS.len()];
                let before = log.0.lock().unwrap().len();
                let r = typed(svc.clone(), method, msg.clone()).await;
                let after: Vec<(String, Msg)> = log.0.lock().unwrap()[before..].to_vec();
                if msg.poison.0 {
                    // the request cannot be encoded: an error status at the caller, nothing sent
                    vensure!(after.is_empty(), "c17:wrong-handler", "call {i}: a request that cannot be serialized invoked handlers {:?}", after.iter().map(|a| &a.0).collect::<Vec<_>>());
                    vensure!(r.is_err(), "c17:result-kind", "call {i} ({method}): a request that cannot be serialized surfaced as a typed success");
                    obs.label("typed:unserializable-request");
                    continue;
                }
                vensure!(after.len() == 1 && after[0].0 == method, "c17:wrong-handler", "call {i}: typed call of {method} invoked handlers {:?}", after.iter().map(|a| &a.0).collect::<Vec<_>>());
                vensure!(after[0].1 == *msg, "c17:request-altered", "call {i}: handler {method} received a different message than was sent");
                match (plan(method, msg), r) {
                    (Ok(want), got) if want.body().poison.0 => {
                        vensure!(got.is_err(), "c17:result-kind", "call {i} ({method}): the handler's response cannot be serialized, yet the client saw a typed success");
                        obs.label("typed:unserializable-response");
                    }
                    (Ok(want), Ok(got)) => {
                        vensure!(got.body() == want.body(), "c17:response-altered", "call {i} ({method}): response message differs from the handler's");
                        vensure!(got.headers().get("x-handler").map(|s| s.as_str()) == Some(method), "c17:response-altered", "call {i} ({method}): response header x-handler is {:?}", got.headers().get("x-handler"));
                    }
                    (Err(want), Err(got)) => {
                        vensure!(got.status() == want.status(), "c17:status-code", "call {i} ({method}): error status {:?}, the handler returned {:?}", got.status(), want.status());
                        // the message travels as the status-message header and must arrive unchanged
                        let want_msg = if msg.text.starts_with("errnomsg:") { String::new() } else { format!("{method}:{}", msg.text.strip_prefix("err:").unwrap_or("")) };
                        let got_msg = got.headers().get("status-message").cloned().unwrap_or_default();
                        vensure!(got_msg == want_msg, "c17:status-message", "call {i} ({method}): the handler's status message ({} bytes) arrived as {} bytes{}", want_msg.len(), got_msg.len(), if got_msg.len() < 200 { format!(": {got_msg:?}") } else { String::new() });
                        for (k, v) in want.headers() {
                            if k == "status-message" { continue; } // carries the message (checked above)
                            vensure!(got.headers().get(k) == Some(v), "c17:status-headers", "call {i} ({method}): header {k} of the handler's status is missing or changed");
                        }
                        obs.label("typed:error-status");
                    }
                    (want, got) => vfail!("c17:result-kind", "call {i} ({method}): handler result ok={} but the client saw ok={} ({:?})", want.is_ok(), got.is_ok(), got.as_ref().err()),
                }
            }
            Call::GarbageRequest(mi, bytes) => {
                let method = METHODS[*mi as usize % METHODS.len()];
                let (route, json) = route_of(method);
                let before = log.0.lock().unwrap().len();
                let req = Request::new(Bytes::from(bytes.clone())).with_route(route);
                let resp = match tower::ServiceExt::oneshot(svc.clone(), req).await {
                    Ok(r) => r,
                    Err(e) => vfail!("c17:transport", "call {i}: raw request failed: {e:?}"),
                };
                let invoked = log.0.lock().unwrap().len() - before;
                if decodes_for(method, json, bytes) {
                    obs.label("garbage-that-decodes");
                } else {
                    vensure!(!resp.status().is_success(), "c17:garbage-accepted", "call {i}: undecodable payload ({} bytes) sent to {route} was answered with success", bytes.len());
                    vensure!(invoked == 0, "c17:garbage-reached-handler", "call {i}: undecodable payload reached a handler");
                }
            }
            Call::HostileResponse(mi, status, body) => {
                let method = METHODS[*mi as usize % METHODS.len()];
                let (_, json) = route_of(method);
                let code = StatusCode::new(*status).unwrap_or(StatusCode::Unknown);
                let r = typed(Canned(code.to_u16(), Bytes::from(body.clone())), method, Msg::default()).await;
                match r {
                    Ok(resp) => {
                        vensure!(code.is_success() && decodes_for(method, json, body), "c17:wrong-typed-success", "call {i} ({method}): response with status {:?} and a {}-byte payload surfaced as a typed success {:?}", code, body.len(), resp.body());
                    }
                    Err(s) => {
                        if !code.is_success() {
                            vensure!(s.status() == code, "c17:status-code", "call {i} ({method}): non-success response {:?} surfaced with status {:?}", code, s.status());
                        }
                    }
                }
            }
        }
    }
    Ok(())
}

pub fn call_case(case: &CallCase, obs: &mut Obs) -> Result<(), Fail> {
    let log = Log::default();
    let r = router_assembled(&log, case.assembly);
    let armed = Armed::new();
    let result = std::panic::catch_unwind(std::panic::AssertUnwindSafe(|| {
        if case.over_network {
            let case = case.clone();
            let log = log.clone();
            run_sim(91, 2, |sim| async move {
                let a = sim.node(0)?;
                let bspec = NodeSpec::new(1);
                let bnet = sim.start_node(&bspec, r).map_err(|e| Fail::Inconclusive(e.to_string()))?;
                match within(10_000, a.net.connect(bspec.addr)).await {
                    Ok(Ok(_)) => {}
                    _ => return Err(Fail::Inconclusive("connect failed".into())),
                }
                let peer = a.net.peer(bspec.peer_id()).ok_or_else(|| Fail::Inconclusive("no peer".into()))?;
                let mut o = Obs::default();
                let r = run_calls(peer, &log, &case.calls, &mut o).await;
                check_no_panics("during typed calls over the network")?;
                vensure!(!bnet.is_closed(), "c17:panic", "the serving network closed during typed calls");
                r.map(|_| o)
            })
        } else {
            let mut o = Obs::default();
            futures::executor::block_on(run_calls(r, &log, &case.calls, &mut o)).map(|_| o)
        }
    }));
    drop(armed);
    match result {
        Ok(Ok(o)) => {
            for l in o.labels { obs.label(l); }
        }
        Ok(Err(e)) => return Err(e),
        Err(e) => {
            let recs = crate::panics::take_thread();
            let site = recs.last().map(|p| p.describe()).unwrap_or_else(|| panic_message(&e));
            vfail!("c17:panic", "a typed call panicked instead of returning an error status: {site}");
        }
    }
    obs.evals(case.calls.len() as u64);
    obs.label(if case.over_network { "over-simnet" } else { "in-process" });
    if case.calls.iter().any(|c| !matches!(c, Call::Typed(_, m) if m.text.is_empty())) {
        obs.nontrivial(case);
    }
    Ok(())
}

pub struct Calls;
impl Part for Calls {
    type Case = CallCase;
    fn name(&self) -> &'static str { "typed-calls" }
    fn rule(&self) -> &'static str {
        "four services compiled into the harness by its build.rs from the CURRENT anemo-build (no package / dotted package / single package; route names that are prefixes of each other; the same service and route names in two services; both codecs; raw-bytes handlers; one method whose message type is Option<..> under JSON, for which `null` is a message and an empty payload is not), all mounted on one Router (add_rpc_service directly, or each service on its own router merged in, or merged into a router that already has routes and a route layer), called in-process and over the simulated network: typed calls with generated messages (some of which cannot be serialized, as request or as the handler's response) and planned handler results (Ok(message) or Err(Status{code, message of 0-3000 bytes incl. multi-byte text or no message at all, headers})), undecodable request payloads (0-40 bytes, incl. very short ones) sent to method routes, and hostile responses (any status, any payload) handed to the typed clients; oracle: a typed call invokes exactly the same-named handler with an equal message and returns its response, or the handler's status with equal code, message and headers; a message that cannot be serialized surfaces as an error status and leaves every later call intact; undecodable payloads get a non-success status and reach no handler; undecodable or non-success responses surface as Err(Status); never a panic; non-trivial = every case except plain empty messages; distinct by case"
    }
    fn strategy(&self, _t: Tier) -> BoxedStrategy<CallCase> {
        let msg = (any::<u64>(), prop_oneof![6 => "[a-z ]{0,12}", 4 => "err:[a-z]{0,8}", 2 => "errnomsg:[a-z]{0,3}", 1 => "err:\\PC{300,1500}", 1 => "err:[a-z]{1000,3000}", 2 => "\\PC{0,20}", 1 => "poisonresp:[a-z]{0,4}"], prop::collection::vec(any::<u8>(), 0..40), prop::bool::weighted(0.08)).prop_map(|(id, text, blob, poison)| Msg { id, text, blob, poison: Poison(poison) });
        let garbage = prop_oneof![2 => prop::collection::vec(any::<u8>(), 0..16), 2 => prop::collection::vec(any::<u8>(), 16..41), 1 => "[ -~]{0,30}".prop_map(|s| s.into_bytes())];
        let call = prop_oneof![
            5 => (0u8..13, msg).prop_map(|(m, msg)| Call::Typed(m, msg)),
            2 => (0u8..13, garbage.clone()).prop_map(|(m, b)| Call::GarbageRequest(m, b)),
            2 => (0u8..13, prop_oneof![Just(200u16), Just(400), Just(404), Just(408), Just(429), Just(500), Just(505), Just(520)], garbage).prop_map(|(m, s, b)| Call::HostileResponse(m, s, b)),
        ];
        (prop::bool::weighted(0.3), prop::collection::vec(call, 1..12), 0u8..3).prop_map(|(over_network, calls, assembly)| CallCase { over_network, calls, assembly }).boxed()
    }
    fn run(&self, c: &CallCase, obs: &mut Obs) -> Result<(), Fail> { call_case(c, obs) }
}

pub fn run(tier: Tier) -> i32 {
    let mut ctx = Ctx::new("C17", tier);
    ctx.assume("randomly generated definitions are checked at token level only (compiling each would need minutes); the compiled family covers the behavioural clauses");
    ctx.assume("content-type is not generated as a user header; a status-message header copied in by the handler must not displace the handler's own message");
    ctx.run_part(Definitions, tier.pick(10_000, 800_000));
    ctx.run_part(Calls, tier.pick(12_000, 1_200_000));
    ctx.finish()
}
