//! Engine B core: a sharded proptest driver with labels, distinct-non-trivial counting,
//! known-finding handling, replay files and evidence output.

use proptest::strategy::{BoxedStrategy, Strategy};
use proptest::test_runner::{Config, RngAlgorithm, RngSeed, TestCaseError, TestError, TestRunner};
use serde::de::DeserializeOwned;
use serde::Serialize;
use serde_json::{json, Value};
use std::collections::{BTreeMap, BTreeSet, HashSet};
use std::fmt::Debug;
use std::hash::{Hash, Hasher};
use std::sync::atomic::{AtomicBool, Ordering};
use std::sync::{Arc, Mutex};
use std::time::Instant;

#[derive(Clone, Copy, Debug, PartialEq, Eq)]
pub enum Tier {
    Quick,
    Thorough,
}

impl Tier {
    pub fn name(self) -> &'static str {
        match self {
            Tier::Quick => "quick",
            Tier::Thorough => "thorough",
        }
    }
    /// `q` cases in the quick tier, `t` in the thorough tier.
    pub fn pick(self, q: u32, t: u32) -> u32 {
        match self {
            Tier::Quick => q,
            Tier::Thorough => t,
        }
    }
}

/// Why a case failed.
#[derive(Clone, Debug)]
pub enum Fail {
    /// The property is violated. `key` is the signature compared with known_findings.json.
    Violation { key: String, msg: String },
    /// The harness could not decide (simulator livelock, health gate, ...). Never a violation.
    Inconclusive(String),
}

impl Fail {
    pub fn violation(key: impl Into<String>, msg: impl Into<String>) -> Self {
        Fail::Violation {
            key: key.into(),
            msg: msg.into(),
        }
    }
}

#[macro_export]
macro_rules! vfail {
    ($key:expr, $($arg:tt)*) => {
        return Err($crate::core::Fail::Violation { key: ($key).to_string(), msg: format!($($arg)*) })
    };
}

#[macro_export]
macro_rules! vensure {
    ($cond:expr, $key:expr, $($arg:tt)*) => {
        if !($cond) {
            return Err($crate::core::Fail::Violation { key: ($key).to_string(), msg: format!($($arg)*) });
        }
    };
}

/// Per-case observations: labels for the histogram and the non-triviality fingerprint.
#[derive(Default, Debug)]
pub struct Obs {
    pub labels: Vec<String>,
    pub nontrivial: Vec<u64>,
    pub known: Vec<(String, String)>,
    pub extra_evaluations: u64,
}

impl Obs {
    pub fn label(&mut self, l: impl Into<String>) {
        self.labels.push(l.into());
    }
    /// Mark this case non-trivial; `fp` identifies it among distinct cases.
    pub fn nontrivial<H: Hash>(&mut self, fp: H) {
        self.nontrivial.push(fingerprint(&fp));
    }
    /// Count additional evaluations performed inside this case (enumerations).
    pub fn evals(&mut self, n: u64) {
        self.extra_evaluations += n;
    }
}

pub fn fingerprint<H: Hash>(h: &H) -> u64 {
    // FNV-1a via a small hasher: stable across runs (no random state).
    struct Fnv(u64);
    impl Hasher for Fnv {
        fn finish(&self) -> u64 {
            self.0
        }
        fn write(&mut self, bytes: &[u8]) {
            for b in bytes {
                self.0 ^= *b as u64;
                self.0 = self.0.wrapping_mul(0x100000001b3);
            }
        }
    }
    let mut f = Fnv(0xcbf29ce484222325);
    h.hash(&mut f);
    f.finish()
}

/// One generated sub-check of a property.
pub trait Part: Sync + Send {
    type Case: Clone + Debug + Serialize + DeserializeOwned + Send + 'static;
    fn name(&self) -> &'static str;
    /// How cases are generated and what makes one non-trivial.
    fn rule(&self) -> &'static str;
    fn strategy(&self, tier: Tier) -> BoxedStrategy<Self::Case>;
    fn run(&self, case: &Self::Case, obs: &mut Obs) -> Result<(), Fail>;
    /// Fixed, non-generated regression cases run before the generated ones.
    fn fixed_cases(&self) -> Vec<Self::Case> {
        Vec::new()
    }
    /// Whether one case is a pure function of its value (false: replays are statistical).
    fn deterministic(&self) -> bool {
        true
    }
}

#[derive(Clone, Debug, Serialize)]
pub struct Violation {
    pub part: String,
    pub key: String,
    pub msg: String,
    pub case: Value,
}

#[derive(Debug, Default)]
pub struct PartReport {
    pub name: String,
    pub rule: String,
    pub evaluations: u64,
    pub nontrivial: HashSet<u64>,
    pub labels: BTreeMap<String, u64>,
    pub samples: Vec<Value>,
    pub violation: Option<Violation>,
    pub inconclusive: Option<String>,
    pub known: BTreeSet<(String, String)>,
    pub known_hits: u64,
    pub exhaustive: bool,
}

#[derive(Clone, Debug, serde::Deserialize)]
pub struct KnownFinding {
    pub property: String,
    pub key: String,
    pub status: String,
    #[serde(default)]
    pub commit: Option<String>,
    pub what: String,
}

#[derive(Clone, Debug, Default)]
pub struct KnownFindings(pub Vec<KnownFinding>);

impl KnownFindings {
    pub fn load() -> Self {
        let path = verif_dir().join("known_findings.json");
        match std::fs::read_to_string(&path) {
            Ok(s) => {
                #[derive(serde::Deserialize)]
                struct File {
                    findings: Vec<KnownFinding>,
                }
                let f: File = serde_json::from_str(&s).expect("known_findings.json must parse");
                KnownFindings(f.findings)
            }
            Err(_) => KnownFindings::default(),
        }
    }
    pub fn open_for(&self, property: &str, key: &str) -> Option<&KnownFinding> {
        self.0
            .iter()
            .find(|f| f.property == property && f.status == "open" && f.key == key)
    }
}

/// `Some(what)` if `key` is listed as an OPEN finding for `property` (read once per process).
/// For checks that meet a recorded finding in the middle of a case and want to go on:
/// push `(key, what)` to `Obs::known` instead of failing.
pub fn known_open(property: &str, key: &str) -> Option<String> {
    static K: std::sync::OnceLock<KnownFindings> = std::sync::OnceLock::new();
    K.get_or_init(KnownFindings::load).open_for(property, key).map(|f| f.what.clone())
}

pub fn verif_dir() -> std::path::PathBuf {
    std::env::var_os("VERIF_DIR")
        .map(Into::into)
        .unwrap_or_else(|| std::path::PathBuf::from("/verif"))
}

pub fn seed_from_env() -> u64 {
    std::env::var("VERIF_SEED")
        .ok()
        .and_then(|s| s.trim().parse::<u64>().ok())
        .unwrap_or(20260927)
}

pub fn threads() -> usize {
    std::env::var("VERIF_THREADS")
        .ok()
        .and_then(|s| s.parse().ok())
        .unwrap_or_else(|| {
            std::thread::available_parallelism()
                .map(|n| n.get())
                .unwrap_or(4)
        })
        .max(1)
}

pub struct Ctx {
    pub property: &'static str,
    pub tier: Tier,
    pub seed: u64,
    pub known: KnownFindings,
    pub reports: Vec<PartReport>,
    pub started: Instant,
    pub assumptions: Vec<String>,
    pub level: &'static str,
    /// set by `vcheck replay`: strict mode does not tolerate known findings
    pub threads: usize,
}

fn seed_bytes(seed: u64, shard: u64, part: &str) -> [u8; 32] {
    let mut out = [0u8; 32];
    let mut x = seed ^ shard.wrapping_mul(0x9E3779B97F4A7C15) ^ fingerprint(&part);
    for chunk in out.chunks_mut(8) {
        // splitmix64
        x = x.wrapping_add(0x9E3779B97F4A7C15);
        let mut z = x;
        z = (z ^ (z >> 30)).wrapping_mul(0xBF58476D1CE4E5B9);
        z = (z ^ (z >> 27)).wrapping_mul(0x94D049BB133111EB);
        z ^= z >> 31;
        chunk.copy_from_slice(&z.to_le_bytes());
    }
    out
}

impl Ctx {
    pub fn new(property: &'static str, tier: Tier) -> Self {
        crash::install(property);
        Ctx {
            property,
            tier,
            seed: seed_from_env(),
            known: KnownFindings::load(),
            reports: Vec::new(),
            started: Instant::now(),
            assumptions: Vec::new(),
            level: "exploration",
            threads: threads(),
        }
    }

    pub fn assume(&mut self, s: &str) {
        self.assumptions.push(s.to_string());
    }

    /// Run `cases` generated cases of `part` (plus its fixed cases), sharded over the worker
    /// threads. Stops all shards at the first unknown violation and shrinks it.
    pub fn run_part<P: Part + 'static>(&mut self, part: P, cases: u32) {
        self.run_part_threads(part, cases, self.threads)
    }

    pub fn run_part_threads<P: Part + 'static>(&mut self, part: P, cases: u32, threads: usize) {
        if self.reports.iter().any(|r| r.violation.is_some()) {
            return; // an earlier part already failed; report that one
        }
        if let Ok(only) = std::env::var("VERIF_PART") {
            if only != part.name() {
                return; // sensitivity analysis: run a single part
            }
        }
        let part = Arc::new(part);
        let property = self.property;
        let shared = Arc::new(Mutex::new(PartReport {
            name: part.name().to_string(),
            rule: part.rule().to_string(),
            ..Default::default()
        }));
        let stop = Arc::new(AtomicBool::new(false));
        let known = Arc::new(self.known.clone());

        // fixed cases first (single thread): the part's own, then the committed regression cases
        // under /verif/replays/<PROPERTY>/<part>/*.json (shrunk failures of earlier sessions)
        let mut fixed = part.fixed_cases();
        let dir = verif_dir().join("replays").join(property).join(part.name());
        if let Ok(rd) = std::fs::read_dir(&dir) {
            let mut files: Vec<_> = rd.flatten().map(|e| e.path()).filter(|p| p.extension().map_or(false, |e| e == "json")).collect();
            files.sort();
            for f in files {
                let parsed = std::fs::read_to_string(&f).ok().and_then(|s| serde_json::from_str::<Value>(&s).ok());
                match parsed.and_then(|v| serde_json::from_value::<P::Case>(v.get("case").cloned().unwrap_or(v)).ok()) {
                    Some(c) => fixed.push(c),
                    None => eprintln!("note: regression case {} does not decode for part {} (format changed?) - skipped", f.display(), part.name()),
                }
            }
        }
        for case in fixed {
            let mut obs = Obs::default();
            let r = run_case_caught(&*part, &case, &mut obs);
            let mut rep = shared.lock().unwrap();
            merge_obs(&mut rep, &case, &obs, true);
            match classify(property, &known, r, &mut rep) {
                CaseVerdict::Pass => {}
                CaseVerdict::Violation(key, msg) => {
                    rep.violation = Some(Violation {
                        part: part.name().to_string(),
                        key,
                        msg,
                        case: serde_json::to_value(&case).unwrap_or(Value::Null),
                    });
                    stop.store(true, Ordering::SeqCst);
                    break;
                }
                CaseVerdict::Inconclusive(m) => {
                    rep.inconclusive = Some(m);
                    stop.store(true, Ordering::SeqCst);
                    break;
                }
            }
        }

        let threads = threads.max(1).min(cases.max(1) as usize);
        let per = cases / threads as u32;
        let extra = cases % threads as u32;
        let mut handles = Vec::new();
        for shard in 0..threads {
            let n = per + if (shard as u32) < extra { 1 } else { 0 };
            if n == 0 || stop.load(Ordering::SeqCst) {
                continue;
            }
            let part = part.clone();
            let shared = shared.clone();
            let stop = stop.clone();
            let known = known.clone();
            let seed = self.seed;
            let tier = self.tier;
            // real-time / real-thread parts: every shrink step costs wall-clock time and the outcome
            // is statistical, so only a few steps are taken
            let shrink_iters = if part.deterministic() { 400 } else { 6 };
            let h = std::thread::Builder::new()
                .name(format!("{}-{}-{}", property, part.name(), shard))
                .stack_size(16 << 20)
                .spawn(move || {
                    let config = Config {
                        cases: n,
                        failure_persistence: None,
                        rng_seed: RngSeed::Fixed(seed),
                        max_shrink_iters: shrink_iters,
                        max_shrink_time: 0,
                        max_global_rejects: 1 << 20,
                        max_local_rejects: 1 << 16,
                        ..Config::default()
                    };
                    let rng = proptest::test_runner::TestRng::from_seed(
                        RngAlgorithm::ChaCha,
                        &seed_bytes(seed, shard as u64, part.name()),
                    );
                    let mut runner = TestRunner::new_with_rng(config, rng);
                    let strategy = part.strategy(tier);
                    let failed_here = std::cell::Cell::new(false);
                    let result = runner.run(&strategy, |case| {
                        if failed_here.get() {
                            // shrinking: re-evaluate, no counting
                            let mut obs = Obs::default();
                            let r = run_case_caught(&*part, &case, &mut obs);
                            let mut scratch = PartReport::default();
                            return match classify(property, &known, r, &mut scratch) {
                                CaseVerdict::Violation(key, msg) => {
                                    Err(TestCaseError::fail(format!("{key}\u{1}{msg}")))
                                }
                                _ => Ok(()),
                            };
                        }
                        if stop.load(Ordering::SeqCst) {
                            return Ok(());
                        }
                        let mut obs = Obs::default();
                        let r = run_case_caught(&*part, &case, &mut obs);
                        let mut rep = shared.lock().unwrap();
                        merge_obs(&mut rep, &case, &obs, false);
                        match classify(property, &known, r, &mut rep) {
                            CaseVerdict::Pass => Ok(()),
                            CaseVerdict::Violation(key, msg) => {
                                failed_here.set(true);
                                stop.store(true, Ordering::SeqCst);
                                Err(TestCaseError::fail(format!("{key}\u{1}{msg}")))
                            }
                            CaseVerdict::Inconclusive(m) => {
                                if rep.inconclusive.is_none() {
                                    rep.inconclusive = Some(m);
                                }
                                stop.store(true, Ordering::SeqCst);
                                Ok(())
                            }
                        }
                    });
                    match result {
                        Ok(()) => {}
                        Err(TestError::Fail(reason, case)) => {
                            let reason = reason.message().to_string();
                            let (key, msg) = reason
                                .split_once('\u{1}')
                                .map(|(a, b)| (a.to_string(), b.to_string()))
                                .unwrap_or((reason.clone(), reason.clone()));
                            let mut rep = shared.lock().unwrap();
                            if rep.violation.is_none() {
                                rep.violation = Some(Violation {
                                    part: part.name().to_string(),
                                    key,
                                    msg,
                                    case: serde_json::to_value(&case).unwrap_or(Value::Null),
                                });
                            }
                        }
                        Err(TestError::Abort(reason)) => {
                            let mut rep = shared.lock().unwrap();
                            if rep.inconclusive.is_none() {
                                rep.inconclusive =
                                    Some(format!("proptest aborted: {}", reason.message()));
                            }
                        }
                    }
                })
                .expect("spawn shard");
            handles.push(h);
        }
        for h in handles {
            if let Err(e) = h.join() {
                let mut rep = shared.lock().unwrap();
                rep.inconclusive = Some(format!("shard thread panicked: {:?}", panic_message(&e)));
            }
        }
        let rep = std::mem::take(&mut *shared.lock().unwrap());
        self.reports.push(rep);
    }

    /// Add a report produced by a non-proptest engine (racer, fuzz campaign, enumerations).
    pub fn push_report(&mut self, rep: PartReport) {
        self.reports.push(rep);
    }

    /// Writes evidence, prints verdict lines, returns the process exit code.
    pub fn finish(self) -> i32 {
        let wall = self.started.elapsed().as_secs_f64();
        let mut evaluations = 0u64;
        let mut distinct = 0u64;
        let mut labels = BTreeMap::new();
        let mut samples = Vec::new();
        let mut rules = Vec::new();
        let mut parts = Vec::new();
        let mut violation: Option<Violation> = None;
        let mut inconclusive: Option<String> = None;
        let mut known = BTreeSet::new();
        let mut known_hits = 0;
        let mut exhaustive_parts = Vec::new();
        for r in &self.reports {
            evaluations += r.evaluations;
            distinct += r.nontrivial.len() as u64;
            for (k, v) in &r.labels {
                *labels.entry(format!("{}:{}", r.name, k)).or_insert(0u64) += v;
            }
            for s in r.samples.iter().take(3) {
                samples.push(json!({"part": r.name, "case": s}));
            }
            rules.push(format!("[{}] {}", r.name, r.rule));
            parts.push(json!({"part": r.name, "evaluations": r.evaluations,
                "distinct_nontrivial": r.nontrivial.len(), "known_finding_hits": r.known_hits,
                "exhaustive_subspace": r.exhaustive}));
            if r.exhaustive {
                exhaustive_parts.push(r.name.clone());
            }
            if violation.is_none() {
                violation = r.violation.clone();
            }
            if inconclusive.is_none() {
                inconclusive = r.inconclusive.clone().map(|m| format!("{}: {}", r.name, m));
            }
            known.extend(r.known.iter().cloned());
            known_hits += r.known_hits;
        }
        for (key, what) in &known {
            println!(
                "KNOWN-FINDING: property={} key={} {}",
                self.property, key, what
            );
        }
        let mut code = 0;
        let mut replay_path = None;
        if let Some(v) = &violation {
            let dir = verif_dir().join("out").join("replay");
            let _ = std::fs::create_dir_all(&dir);
            let path = dir.join(format!(
                "{}-{}-{}.json",
                self.property,
                v.part,
                self.seed
            ));
            let body = json!({
                "property": self.property, "part": v.part, "key": v.key, "message": v.msg,
                "seed": self.seed, "tier": self.tier.name(), "case": v.case,
            });
            let _ = std::fs::write(&path, serde_json::to_string_pretty(&body).unwrap());
            println!("violation detail: part={} key={} {}", v.part, v.key, v.msg);
            println!(
                "VIOLATION property={} replay={}",
                self.property,
                path.display()
            );
            replay_path = Some(path);
            code = 1;
        } else if let Some(m) = &inconclusive {
            println!("INCONCLUSIVE property={} {}", self.property, m);
            code = 2;
        }
        // health gate: the schema wants >= 2 distinct non-trivial cases
        if code == 0 && distinct < 2 {
            println!(
                "INCONCLUSIVE property={} generator health: only {} distinct non-trivial cases",
                self.property, distinct
            );
            code = 2;
        }
        let mut rule = rules.join(" | ");
        if !exhaustive_parts.is_empty() {
            rule.push_str(&format!(
                " | finite sub-spaces enumerated completely in parts: {}",
                exhaustive_parts.join(",")
            ));
        }
        let evidence = json!({
            "property_id": self.property,
            "tier": self.tier.name(),
            "seed": self.seed,
            "level": self.level,
            "coverage": {
                "evaluations": evaluations,
                "distinct_nontrivial": distinct,
                "rule": rule,
                "samples": samples,
                "labels": labels,
                "parts": parts,
                "known_finding_hits": known_hits,
                "threads": self.threads,
            },
            "assumptions": self.assumptions,
            "wall_s": wall,
            "violations": if violation.is_some() { 1 } else { 0 },
            "verdict": match code { 0 => "held", 1 => "violation", _ => "inconclusive" },
            "replay": replay_path.map(|p| p.display().to_string()),
        });
        let dir = verif_dir().join("evidence");
        let _ = std::fs::create_dir_all(&dir);
        let path = dir.join(format!("{}.json", self.property));
        std::fs::write(&path, serde_json::to_string_pretty(&evidence).unwrap())
            .expect("write evidence");
        println!(
            "{} {}: evaluations={} distinct_nontrivial={} known_hits={} wall={:.1}s exit={}",
            self.property,
            self.tier.name(),
            evaluations,
            distinct,
            known_hits,
            wall,
            code
        );
        code
    }
}

pub fn panic_message(e: &Box<dyn std::any::Any + Send>) -> String {
    if let Some(s) = e.downcast_ref::<&str>() {
        s.to_string()
    } else if let Some(s) = e.downcast_ref::<String>() {
        s.clone()
    } else {
        "<non-string panic>".to_string()
    }
}

/// Wall-clock watchdog: a case that does not return is an infrastructure problem (exit 2),
/// never a verdict. (Virtual-time deadlines inside the simulator are the only hang oracles.)
pub mod watchdog {
    use std::collections::HashMap;
    use std::sync::{Mutex, Once};
    use std::thread::ThreadId;
    use std::time::{Duration, Instant};

    static RUNNING: Mutex<Option<HashMap<ThreadId, (Instant, String, String)>>> = Mutex::new(None);
    static START: Once = Once::new();

    pub fn limit() -> Duration {
        Duration::from_secs(std::env::var("VERIF_CASE_TIMEOUT_S").ok().and_then(|s| s.parse().ok()).unwrap_or(420))
    }

    pub fn begin(what: &str, case: String) {
        START.call_once(|| {
            *RUNNING.lock().unwrap() = Some(HashMap::new());
            std::thread::Builder::new().name("watchdog".into()).spawn(|| loop {
                std::thread::sleep(Duration::from_secs(2));
                let g = RUNNING.lock().unwrap();
                if let Some(m) = g.as_ref() {
                    for (start, what, case) in m.values() {
                        if start.elapsed() > limit() {
                            let dir = super::verif_dir().join("out");
                            let _ = std::fs::create_dir_all(&dir);
                            let path = dir.join(format!("stuck-{}.json", what.replace([':', '/'], "-")));
                            let _ = std::fs::write(&path, case);
                            println!("INCONCLUSIVE {what}: a case did not return within {:?} of wall-clock time (harness/simulator problem, not a verdict); case saved to {}", limit(), path.display());
                            std::process::exit(2);
                        }
                    }
                }
            }).expect("watchdog thread");
        });
        if let Some(m) = RUNNING.lock().unwrap().as_mut() {
            m.insert(std::thread::current().id(), (Instant::now(), what.to_string(), case));
        }
    }

    pub fn end() {
        if let Some(m) = RUNNING.lock().unwrap().as_mut() {
            m.remove(&std::thread::current().id());
        }
    }
}

/// A case that kills the whole process (abort on allocation failure, stack overflow, double
/// panic, memory fault) cannot be caught like a panic. The case each worker is running is kept
/// serialized; a handler for the fatal signals writes it out as the replay file, prints the
/// VIOLATION line and exits 1.
pub mod crash {
    use std::cell::RefCell;
    use std::sync::OnceLock;

    static PROPERTY: OnceLock<String> = OnceLock::new();
    thread_local! {
        static CURRENT: RefCell<Option<(String, String)>> = const { RefCell::new(None) };
    }

    pub fn install(property: &str) {
        let _ = PROPERTY.set(property.to_string());
        unsafe {
            for sig in [libc::SIGABRT, libc::SIGSEGV, libc::SIGBUS, libc::SIGILL] {
                let mut sa: libc::sigaction = std::mem::zeroed();
                sa.sa_sigaction = handler as usize;
                sa.sa_flags = libc::SA_ONSTACK | libc::SA_RESETHAND;
                libc::sigemptyset(&mut sa.sa_mask);
                libc::sigaction(sig, &sa, std::ptr::null_mut());
            }
        }
    }

    pub fn begin(part: &str, case_json: &str) {
        let _ = CURRENT.try_with(|c| *c.borrow_mut() = Some((part.to_string(), case_json.to_string())));
    }

    pub fn end() {
        let _ = CURRENT.try_with(|c| *c.borrow_mut() = None);
    }

    extern "C" fn handler(sig: libc::c_int) {
        // Not async-signal-safe in the letter (allocation, file I/O), but the process is lost
        // anyway and the giant allocation or the fault that brought us here is not in progress.
        let cur = CURRENT.try_with(|c| c.try_borrow().ok().and_then(|c| c.clone())).ok().flatten();
        let prop = PROPERTY.get().cloned().unwrap_or_default();
        match cur {
            Some((part, case)) if !prop.is_empty() => {
                let name = match sig { libc::SIGABRT => "SIGABRT", libc::SIGSEGV => "SIGSEGV", libc::SIGBUS => "SIGBUS", _ => "SIGILL" };
                let dir = super::verif_dir().join("out").join("replay");
                let _ = std::fs::create_dir_all(&dir);
                let path = dir.join(format!("{prop}-{}-crash.json", part.replace([':', '/'], "-")));
                let msg = format!("the checking process was killed by {name} (abort on allocation failure or double panic, stack overflow, memory fault) while running this case");
                let doc = format!("{{\"property\":\"{prop}\",\"part\":\"{part}\",\"key\":\"crash:{name}\",\"message\":\"{msg}\",\"seed\":0,\"tier\":\"quick\",\"case\":{case}}}");
                let _ = std::fs::write(&path, doc);
                let line = format!("violation detail: part={part} key=crash:{name} {msg}\nVIOLATION property={prop} replay={}\n", path.display());
                unsafe {
                    libc::write(1, line.as_ptr() as *const libc::c_void, line.len());
                    libc::_exit(1);
                }
            }
            _ => unsafe {
                // not inside a case: default action (SA_RESETHAND restored it)
                libc::raise(sig);
            },
        }
    }
}

fn run_case_caught<P: Part>(part: &P, case: &P::Case, obs: &mut Obs) -> Result<(), Fail> {
    crate::panics::clear_thread();
    let case_json = serde_json::to_string(case).unwrap_or_default();
    crash::begin(part.name(), &case_json);
    watchdog::begin(part.name(), case_json);
    let t0 = Instant::now();
    let r = run_case_caught_inner(part, case, obs);
    watchdog::end();
    crash::end();
    if let Some(ms) = std::env::var("VERIF_SLOW_MS").ok().and_then(|s| s.parse::<u128>().ok()) {
        if t0.elapsed().as_millis() > ms {
            eprintln!("SLOW {} ms [{}]: {}", t0.elapsed().as_millis(), part.name(), serde_json::to_string(case).unwrap_or_default());
        }
    }
    r
}

fn run_case_caught_inner<P: Part>(part: &P, case: &P::Case, obs: &mut Obs) -> Result<(), Fail> {
    let r = std::panic::catch_unwind(std::panic::AssertUnwindSafe(|| part.run(case, obs)));
    match r {
        Ok(r) => r,
        Err(e) => {
            // a panic that unwound into the harness itself: attribute it
            let recs = crate::panics::take_thread();
            let (key, msg) = match recs.last() {
                Some(p) if !p.in_repo() => {
                    // a bug in the harness itself is never a property violation
                    return Err(Fail::Inconclusive(format!("harness panic: {}", p.describe())));
                }
                Some(p) => (p.key(), p.describe()),
                None => ("panic:unknown".to_string(), panic_message(&e)),
            };
            Err(Fail::Violation {
                key,
                msg: format!("panic unwound into the harness: {msg}"),
            })
        }
    }
}

enum CaseVerdict {
    Pass,
    Violation(String, String),
    Inconclusive(String),
}

fn classify(
    property: &str,
    known: &KnownFindings,
    r: Result<(), Fail>,
    rep: &mut PartReport,
) -> CaseVerdict {
    match r {
        Ok(()) => CaseVerdict::Pass,
        Err(Fail::Inconclusive(m)) => CaseVerdict::Inconclusive(m),
        Err(Fail::Violation { key, msg }) => {
            if let Some(k) = known.open_for(property, &key) {
                rep.known.insert((key, k.what.clone()));
                rep.known_hits += 1;
                CaseVerdict::Pass
            } else {
                CaseVerdict::Violation(key, msg)
            }
        }
    }
}

fn merge_obs<C: Serialize>(rep: &mut PartReport, case: &C, obs: &Obs, fixed: bool) {
    rep.evaluations += 1 + obs.extra_evaluations;
    for l in &obs.labels {
        *rep.labels.entry(l.clone()).or_insert(0) += 1;
    }
    if fixed {
        *rep.labels.entry("fixed-regression-case".into()).or_insert(0) += 1;
    }
    let was_new = obs
        .nontrivial
        .iter()
        .fold(false, |acc, fp| rep.nontrivial.insert(*fp) || acc);
    // keep the first few non-trivial cases as samples (and at least one case whatever it is)
    if (was_new && rep.samples.len() < 4) || rep.samples.is_empty() {
        if let Ok(v) = serde_json::to_value(case) {
            rep.samples.push(truncate_value(v));
        }
    }
    for (k, w) in &obs.known {
        rep.known.insert((k.clone(), w.clone()));
    }
}

/// Keep evidence files small: long strings/arrays inside samples are abbreviated.
pub fn truncate_value(v: Value) -> Value {
    match v {
        Value::String(s) if s.len() > 160 => {
            Value::String(format!("{}…(+{} bytes)", &s[..floor_char(&s, 120)], s.len() - 120))
        }
        Value::Array(a) if a.len() > 24 => {
            let n = a.len();
            let mut out: Vec<Value> = a.into_iter().take(16).map(truncate_value).collect();
            out.push(Value::String(format!("…(+{} more items)", n - 16)));
            Value::Array(out)
        }
        Value::Array(a) => Value::Array(a.into_iter().map(truncate_value).collect()),
        Value::Object(o) => Value::Object(o.into_iter().map(|(k, v)| (k, truncate_value(v))).collect()),
        other => other,
    }
}

fn floor_char(s: &str, mut i: usize) -> usize {
    while !s.is_char_boundary(i) {
        i -= 1;
    }
    i
}

/// Run one saved case of a part (used by `vcheck replay`). Returns Ok if the property held.
pub fn replay_part<P: Part>(part: &P, case: &Value, times: u32) -> Result<(), (String, String, u32)> {
    let case: P::Case = serde_json::from_value(case.clone())
        .map_err(|e| ("replay:decode".to_string(), e.to_string(), 0))?;
    let mut hits = 0;
    let mut last = None;
    for _ in 0..times.max(1) {
        let mut obs = Obs::default();
        match run_case_caught(part, &case, &mut obs) {
            Ok(()) => {}
            Err(Fail::Violation { key, msg }) => {
                hits += 1;
                last = Some((key, msg));
            }
            Err(Fail::Inconclusive(m)) => {
                last = last.or(Some(("inconclusive".into(), m)));
            }
        }
    }
    match last {
        Some((k, m)) if hits > 0 => Err((k, m, hits)),
        _ => Ok(()),
    }
}

/// Helper for strategies: map a generated u16 onto an index monotonically (good shrinking).
pub fn idx(i: u16, len: usize) -> usize {
    if len == 0 {
        0
    } else {
        ((i as usize) * len) >> 16
    }
}

pub fn boxed<S: Strategy + 'static>(s: S) -> BoxedStrategy<S::Value> {
    s.boxed()
}
