//! Process-wide panic hook with per-thread attribution.

use std::cell::RefCell;
use std::sync::{Mutex, Once};

#[derive(Clone, Debug)]
pub struct PanicRec {
    pub file: String,
    pub line: u32,
    pub msg: String,
    pub thread: String,
}

impl PanicRec {
    /// Signature used for known findings: file basename, normalised message prefix and the
    /// trimmed source text of the panicking line (line numbers move, the text does not).
    pub fn key(&self) -> String {
        let base = self.file.rsplit('/').next().unwrap_or(&self.file);
        let mut prefix: String = self
            .msg
            .chars()
            .take(48)
            .map(|c| if c.is_ascii_digit() { '#' } else { c })
            .collect();
        prefix = prefix.replace('\n', " ");
        let src = source_line(&self.file, self.line).unwrap_or_default();
        format!("panic:{}:{}:{}", base, prefix.trim(), src)
    }
    pub fn describe(&self) -> String {
        format!(
            "panic at {}:{} on thread {}: {}",
            self.file, self.line, self.thread, self.msg
        )
    }
    /// true if the panic site is in the code under test (or one of its dependencies), false
    /// if it is in the harness' own sources
    pub fn in_repo(&self) -> bool {
        !(self.file.starts_with("src/") || self.file.contains("/verif/harness/") || self.file.contains("/verif/fuzz/"))
    }
}

fn source_line(file: &str, line: u32) -> Option<String> {
    let candidates = [
        file.to_string(),
        format!("/repo/{file}"),
        format!("/repo/crates/anemo/{file}"),
    ];
    for c in candidates {
        if let Ok(s) = std::fs::read_to_string(&c) {
            return s
                .lines()
                .nth(line.saturating_sub(1) as usize)
                .map(|l| l.trim().to_string());
        }
    }
    None
}

thread_local! {
    static THREAD_PANICS: RefCell<Vec<PanicRec>> = const { RefCell::new(Vec::new()) };
}

static GLOBAL_PANICS: Mutex<Vec<PanicRec>> = Mutex::new(Vec::new());
static INSTALL: Once = Once::new();

pub fn install() {
    INSTALL.call_once(|| {
        let verbose = std::env::var_os("VERIF_VERBOSE").is_some();
        let default = std::panic::take_hook();
        std::panic::set_hook(Box::new(move |info| {
            let (file, line) = info
                .location()
                .map(|l| (l.file().to_string(), l.line()))
                .unwrap_or_default();
            let msg = if let Some(s) = info.payload().downcast_ref::<&str>() {
                s.to_string()
            } else if let Some(s) = info.payload().downcast_ref::<String>() {
                s.clone()
            } else {
                "<non-string panic>".to_string()
            };
            let rec = PanicRec {
                file,
                line,
                msg,
                thread: std::thread::current().name().unwrap_or("?").to_string(),
            };
            let _ = THREAD_PANICS.try_with(|p| {
                if let Ok(mut p) = p.try_borrow_mut() {
                    p.push(rec.clone())
                }
            });
            if let Ok(mut g) = GLOBAL_PANICS.lock() {
                if g.len() < 10_000 {
                    g.push(rec);
                }
            }
            if verbose {
                default(info);
            }
        }));
    });
}

pub fn clear_thread() {
    THREAD_PANICS.with(|p| p.borrow_mut().clear());
}

pub fn take_thread() -> Vec<PanicRec> {
    THREAD_PANICS.with(|p| std::mem::take(&mut *p.borrow_mut()))
}

pub fn peek_thread() -> Vec<PanicRec> {
    THREAD_PANICS.with(|p| p.borrow().clone())
}

pub fn take_global() -> Vec<PanicRec> {
    std::mem::take(&mut *GLOBAL_PANICS.lock().unwrap())
}
