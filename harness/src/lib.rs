//! Verification harness for bmwill/anemo: property-based testing and fuzzing.
pub mod core;
pub mod fuzz;
pub mod fuzzrun;
pub mod panics;
pub mod props;
pub mod refmodel;
pub mod simnet;
pub mod srcdict;

/// serde helper: Vec<u8> as a hex string (replay files stay readable and small).
pub mod hexbytes {
    use serde::{Deserialize, Deserializer, Serializer};
    pub fn serialize<S: Serializer>(b: &Vec<u8>, s: S) -> Result<S::Ok, S::Error> {
        s.serialize_str(&hex::encode(b))
    }
    pub fn deserialize<'de, D: Deserializer<'de>>(d: D) -> Result<Vec<u8>, D::Error> {
        let s = String::deserialize(d)?;
        hex::decode(s).map_err(serde::de::Error::custom)
    }
}
