//! In-memory datagram fabric under tokio's paused clock.
//!
//! `SimSocket` implements `quinn::AsyncUdpSocket`; the fabric owns loss, delay, reordering,
//! duplication and partitions per datagram, and keeps a log of what it carried.

use bytes::Bytes;
use quinn::udp::{RecvMeta, Transmit};
use quinn::{AsyncUdpSocket, UdpPoller};
use serde::{Deserialize, Serialize};
use std::cmp::Reverse;
use std::collections::{BTreeSet, BinaryHeap, HashMap, HashSet, VecDeque};
use std::fmt;
use std::future::Future;
use std::io::{self, IoSliceMut};
use std::net::{IpAddr, Ipv4Addr, SocketAddr};
use std::pin::Pin;
use std::sync::{Arc, Mutex};
use std::task::{Context, Poll, Waker};
use std::time::Duration;
use tokio::sync::Notify;
use tokio::time::Instant;

pub fn node_addr(i: u8) -> SocketAddr {
    SocketAddr::new(IpAddr::V4(Ipv4Addr::new(10, 0, 0, i + 1)), 9000 + i as u16)
}

pub fn node_of(addr: SocketAddr) -> Option<u8> {
    match addr.ip() {
        IpAddr::V4(v4) if v4.octets()[..3] == [10, 0, 0] && v4.octets()[3] >= 1 => {
            Some(v4.octets()[3] - 1)
        }
        _ => None,
    }
}

/// One segment of a generated fault script. Times are virtual milliseconds since the fabric was
/// created. `from`/`to` select a direction by node index (`None` = any).
#[derive(Clone, Debug, Default, Serialize, Deserialize, PartialEq, Eq, Hash)]
pub struct FaultSeg {
    pub t0_ms: u64,
    pub t1_ms: u64,
    pub from: Option<u8>,
    pub to: Option<u8>,
    /// probability (per mille) that a datagram is dropped
    pub loss_pm: u16,
    /// extra one-way delay drawn uniformly from this range (ms): causes reordering
    pub delay_ms: (u32, u32),
    /// probability (per mille) that a datagram is delivered twice
    pub dup_pm: u16,
    /// drop everything
    pub partition: bool,
}

impl FaultSeg {
    fn matches(&self, t_ms: u64, src: SocketAddr, dst: SocketAddr) -> bool {
        t_ms >= self.t0_ms
            && t_ms < self.t1_ms
            && self.from.map_or(true, |f| node_of(src) == Some(f))
            && self.to.map_or(true, |t| node_of(dst) == Some(t))
    }
}

#[derive(Clone, Debug)]
pub struct Datagram {
    pub src: SocketAddr,
    pub dst: SocketAddr,
    pub data: Bytes,
    pub ecn: Option<quinn::udp::EcnCodepoint>,
}

struct InFlight {
    due: Instant,
    seq: u64,
    dgram: Datagram,
}
impl PartialEq for InFlight {
    fn eq(&self, o: &Self) -> bool {
        self.seq == o.seq
    }
}
impl Eq for InFlight {}
impl PartialOrd for InFlight {
    fn partial_cmp(&self, o: &Self) -> Option<std::cmp::Ordering> {
        Some(self.cmp(o))
    }
}
impl Ord for InFlight {
    fn cmp(&self, o: &Self) -> std::cmp::Ordering {
        Reverse((self.due, self.seq)).cmp(&Reverse((o.due, o.seq)))
    }
}

#[derive(Default)]
struct SockInner {
    inbox: Mutex<VecDeque<Datagram>>,
    waker: Mutex<Option<Waker>>,
    /// datagrams handed to the fabric during the current virtual millisecond
    rate: Mutex<(u64, u64)>,
    /// the machine behind this socket is gone (crashed, unplugged): whatever it still sends vanishes,
    /// nothing reaches it, and its address is free for somebody else
    detached: std::sync::atomic::AtomicBool,
}

/// A socket has a finite send rate: at most this many datagrams per virtual millisecond
/// (~2 Gbit/s at 1200 bytes). Beyond it `try_send` reports `WouldBlock` until the next
/// millisecond, exactly like a full socket buffer. Without this, code that re-sends in a
/// self-waking loop (quinn does while closing a connection mid-handshake) would never let the
/// paused clock advance.
pub const SEND_BUDGET_PER_MS: u64 = 200;

/// A "new connection attempt" seen on the wire: a QUIC Initial with a never-seen DCID.
#[derive(Clone, Debug, Serialize)]
pub struct Attempt {
    pub t_ms: u64,
    pub src: SocketAddr,
    pub dst: SocketAddr,
}

#[derive(Clone, Copy, Debug, Default, Serialize)]
pub struct FabricStats {
    pub sent: u64,
    pub delivered: u64,
    pub dropped_fault: u64,
    pub dropped_unbound: u64,
    pub duplicated: u64,
    pub delayed: u64,
    pub bytes_sent: u64,
}

struct State {
    sockets: HashMap<SocketAddr, Arc<SockInner>>,
    heap: BinaryHeap<InFlight>,
    seq: u64,
    faults: Vec<FaultSeg>,
    rng: u64,
    default_delay: Duration,
    link_delay: HashMap<(u8, u8), Duration>,
    initial_seen: HashSet<Vec<u8>>,
    attempts: Vec<Attempt>,
    instant_sends: (Option<Instant>, u64),
    livelock: bool,
    stats: FabricStats,
    /// distinct virtual times (µs) at which something was sent or delivered
    event_times: BTreeSet<u64>,
    record_event_times: bool,
    /// per (src,dst) bytes sent and the time of last send/delivery, for cause analysis
    last_send: HashMap<(SocketAddr, SocketAddr), u64>,
    last_deliver: HashMap<(SocketAddr, SocketAddr), u64>,
    bytes_from: HashMap<SocketAddr, u64>,
    /// black-holed addresses: datagrams to and from them vanish (a crashed host)
    blackholes: HashSet<SocketAddr>,
}

pub struct Fabric {
    state: Mutex<State>,
    notify: Notify,
    epoch: Instant,
}

impl fmt::Debug for Fabric {
    fn fmt(&self, f: &mut fmt::Formatter<'_>) -> fmt::Result {
        f.write_str("Fabric")
    }
}

fn splitmix(x: &mut u64) -> u64 {
    *x = x.wrapping_add(0x9E3779B97F4A7C15);
    let mut z = *x;
    z = (z ^ (z >> 30)).wrapping_mul(0xBF58476D1CE4E5B9);
    z = (z ^ (z >> 27)).wrapping_mul(0x94D049BB133111EB);
    z ^ (z >> 31)
}

pub const LIVELOCK_SENDS_PER_INSTANT: u64 = 200_000;

impl Fabric {
    /// Must be called inside the (paused) runtime: spawns the delivery pump.
    pub fn new(fault_seed: u64, default_delay: Duration) -> Arc<Self> {
        let fabric = Arc::new(Fabric {
            state: Mutex::new(State {
                sockets: HashMap::new(),
                heap: BinaryHeap::new(),
                seq: 0,
                faults: Vec::new(),
                rng: fault_seed ^ 0x5EED_FAB0,
                default_delay,
                link_delay: HashMap::new(),
                initial_seen: HashSet::new(),
                attempts: Vec::new(),
                instant_sends: (None, 0),
                livelock: false,
                stats: FabricStats::default(),
                event_times: BTreeSet::new(),
                record_event_times: false,
                last_send: HashMap::new(),
                last_deliver: HashMap::new(),
                bytes_from: HashMap::new(),
                blackholes: HashSet::new(),
            }),
            notify: Notify::new(),
            epoch: Instant::now(),
        });
        let f = fabric.clone();
        tokio::spawn(async move {
            loop {
                // `notify_one` stores a permit when nobody waits, so a send between
                // `deliver_due` and the await below is never lost.
                match f.deliver_due() {
                    Some(due) => {
                        tokio::select! {
                            _ = tokio::time::sleep_until(due) => {}
                            _ = f.notify.notified() => {}
                        }
                    }
                    None => f.notify.notified().await,
                }
            }
        });
        fabric
    }

    pub fn now_ms(&self) -> u64 {
        (Instant::now() - self.epoch).as_millis() as u64
    }
    pub fn now_us(&self) -> u64 {
        (Instant::now() - self.epoch).as_micros() as u64
    }
    pub fn epoch(&self) -> Instant {
        self.epoch
    }

    pub fn set_faults(&self, faults: Vec<FaultSeg>) {
        self.state.lock().unwrap().faults = faults;
    }
    pub fn add_fault(&self, seg: FaultSeg) {
        self.state.lock().unwrap().faults.push(seg);
    }
    pub fn clear_faults(&self) {
        self.state.lock().unwrap().faults.clear();
    }
    pub fn set_link_delay(&self, a: u8, b: u8, d: Duration) {
        let mut st = self.state.lock().unwrap();
        st.link_delay.insert((a, b), d);
        st.link_delay.insert((b, a), d);
    }
    pub fn set_default_delay(&self, d: Duration) {
        self.state.lock().unwrap().default_delay = d;
    }
    pub fn record_event_times(&self, on: bool) {
        self.state.lock().unwrap().record_event_times = on;
    }
    pub fn event_times_us(&self) -> Vec<u64> {
        self.state.lock().unwrap().event_times.iter().copied().collect()
    }
    pub fn stats(&self) -> FabricStats {
        self.state.lock().unwrap().stats
    }
    pub fn attempts(&self) -> Vec<Attempt> {
        self.state.lock().unwrap().attempts.clone()
    }
    pub fn livelocked(&self) -> bool {
        self.state.lock().unwrap().livelock
    }
    pub fn is_bound(&self, addr: SocketAddr) -> bool {
        self.state.lock().unwrap().sockets.contains_key(&addr)
    }
    pub fn bytes_sent_from(&self, addr: SocketAddr) -> u64 {
        *self.state.lock().unwrap().bytes_from.get(&addr).unwrap_or(&0)
    }
    /// virtual ms of the last datagram handed to the fabric by `src` for `dst`
    pub fn last_send_ms(&self, src: SocketAddr, dst: SocketAddr) -> Option<u64> {
        self.state.lock().unwrap().last_send.get(&(src, dst)).copied()
    }
    /// virtual ms of the last datagram from `src` actually delivered to `dst`
    pub fn last_deliver_ms(&self, src: SocketAddr, dst: SocketAddr) -> Option<u64> {
        self.state.lock().unwrap().last_deliver.get(&(src, dst)).copied()
    }
    pub fn set_blackhole(&self, addr: SocketAddr, on: bool) {
        let mut st = self.state.lock().unwrap();
        if on {
            st.blackholes.insert(addr);
        } else {
            st.blackholes.remove(&addr);
        }
    }

    /// The machine at `addr` disappears without a word: its socket stays with its owner but is cut off
    /// for good, and the address can be bound again at once (by another machine).
    pub fn detach(&self, addr: SocketAddr) {
        let mut st = self.state.lock().unwrap();
        if let Some(s) = st.sockets.remove(&addr) {
            s.detached.store(true, std::sync::atomic::Ordering::SeqCst);
        }
    }

    pub fn bind(self: &Arc<Self>, addr: SocketAddr) -> io::Result<Arc<SimSocket>> {
        let mut st = self.state.lock().unwrap();
        if st.sockets.contains_key(&addr) {
            return Err(io::Error::new(io::ErrorKind::AddrInUse, "sim address in use"));
        }
        let inner = Arc::new(SockInner::default());
        st.sockets.insert(addr, inner.clone());
        Ok(Arc::new(SimSocket {
            fabric: self.clone(),
            addr,
            inner,
        }))
    }

    fn unbind(&self, addr: SocketAddr, inner: &Arc<SockInner>) {
        let mut st = self.state.lock().unwrap();
        if let Some(cur) = st.sockets.get(&addr) {
            if Arc::ptr_eq(cur, inner) {
                st.sockets.remove(&addr);
            }
        }
    }

    /// Deliver everything due; return the next due time.
    fn deliver_due(&self) -> Option<Instant> {
        let now = Instant::now();
        let mut wake = Vec::new();
        let next;
        {
            let mut st = self.state.lock().unwrap();
            loop {
                match st.heap.peek() {
                    Some(top) if top.due <= now => {
                        let item = st.heap.pop().unwrap();
                        let t_us = (now - self.epoch).as_micros() as u64;
                        if st.record_event_times {
                            st.event_times.insert(t_us);
                        }
                        match st.sockets.get(&item.dgram.dst).cloned() {
                            Some(sock) => {
                                st.stats.delivered += 1;
                                st.last_deliver
                                    .insert((item.dgram.src, item.dgram.dst), t_us / 1000);
                                sock.inbox.lock().unwrap().push_back(item.dgram);
                                if let Some(w) = sock.waker.lock().unwrap().take() {
                                    wake.push(w);
                                }
                            }
                            None => st.stats.dropped_unbound += 1,
                        }
                    }
                    Some(top) => {
                        next = Some(top.due);
                        break;
                    }
                    None => {
                        next = None;
                        break;
                    }
                }
            }
        }
        for w in wake {
            w.wake();
        }
        next
    }

    fn send(&self, dgram: Datagram) -> io::Result<()> {
        let now = Instant::now();
        let mut st = self.state.lock().unwrap();
        if st.livelock {
            return Err(io::Error::new(io::ErrorKind::WouldBlock, "sim livelock"));
        }
        match st.instant_sends {
            (Some(t), n) if t == now => {
                st.instant_sends.1 = n + 1;
                if n + 1 > LIVELOCK_SENDS_PER_INSTANT {
                    st.livelock = true;
                    if std::env::var_os("VERIF_VERBOSE").is_some() {
                        eprintln!("sim livelock at {:?}: last datagram {} -> {} len {} first byte {:#04x}", now - self.epoch, dgram.src, dgram.dst, dgram.data.len(), dgram.data.first().copied().unwrap_or(0));
                    }
                    return Err(io::Error::new(io::ErrorKind::WouldBlock, "sim livelock"));
                }
            }
            _ => st.instant_sends = (Some(now), 1),
        }
        let t_us = (now - self.epoch).as_micros() as u64;
        let t_ms = t_us / 1000;
        st.stats.sent += 1;
        st.stats.bytes_sent += dgram.data.len() as u64;
        *st.bytes_from.entry(dgram.src).or_insert(0) += dgram.data.len() as u64;
        st.last_send.insert((dgram.src, dgram.dst), t_ms);
        if st.record_event_times {
            st.event_times.insert(t_us);
        }
        // classify: QUIC v1 long-header Initial with a never-seen DCID = new connection attempt
        let d = &dgram.data;
        if d.len() > 7 && d[0] & 0x80 != 0 && (d[0] & 0x30) >> 4 == 0 && d[1..5] == [0, 0, 0, 1] {
            let dcid_len = d[5] as usize;
            if d.len() >= 6 + dcid_len {
                let dcid = d[6..6 + dcid_len].to_vec();
                // only count client Initials: the client's first flight carries a DCID it chose
                // itself; server Initials carry the client's SCID as DCID. We key on (src,dcid)
                // and only record when no Initial has been seen from dst to src before with
                // this connection (server replies use a DCID already seen as the client's SCID).
                let scid_off = 6 + dcid_len;
                let scid = if d.len() > scid_off {
                    let l = d[scid_off] as usize;
                    d.get(scid_off + 1..scid_off + 1 + l).map(|s| s.to_vec())
                } else {
                    None
                };
                let is_reply = st.initial_seen.contains(&[b"scid".as_slice(), &dcid].concat());
                if !is_reply && st.initial_seen.insert([b"dcid".as_slice(), &dcid].concat()) {
                    st.attempts.push(Attempt {
                        t_ms,
                        src: dgram.src,
                        dst: dgram.dst,
                    });
                }
                if let Some(scid) = scid {
                    st.initial_seen.insert([b"scid".as_slice(), &scid].concat());
                }
            }
        }
        if st.blackholes.contains(&dgram.dst) || st.blackholes.contains(&dgram.src) {
            st.stats.dropped_fault += 1;
            return Ok(());
        }
        let base = node_of(dgram.src)
            .zip(node_of(dgram.dst))
            .and_then(|k| st.link_delay.get(&k).copied())
            .unwrap_or(st.default_delay);
        let mut extra = Duration::ZERO;
        let mut drop_it = false;
        let mut dup = false;
        let segs: Vec<FaultSeg> = st
            .faults
            .iter()
            .filter(|s| s.matches(t_ms, dgram.src, dgram.dst))
            .cloned()
            .collect();
        for seg in segs {
            if seg.partition {
                drop_it = true;
            }
            if seg.loss_pm > 0 && (splitmix(&mut st.rng) % 1000) < seg.loss_pm as u64 {
                drop_it = true;
            }
            if seg.delay_ms.1 > 0 {
                let (lo, hi) = (seg.delay_ms.0.min(seg.delay_ms.1), seg.delay_ms.1);
                let span = (hi - lo + 1) as u64;
                extra += Duration::from_millis(lo as u64 + splitmix(&mut st.rng) % span);
            }
            if seg.dup_pm > 0 && (splitmix(&mut st.rng) % 1000) < seg.dup_pm as u64 {
                dup = true;
            }
        }
        if drop_it {
            st.stats.dropped_fault += 1;
            return Ok(());
        }
        if extra > Duration::ZERO {
            st.stats.delayed += 1;
        }
        let due = now + base + extra;
        st.seq += 1;
        let seq = st.seq;
        if dup {
            st.stats.duplicated += 1;
            st.seq += 1;
            let seq2 = st.seq;
            let due2 = due + Duration::from_millis(1 + splitmix(&mut st.rng) % 5);
            st.heap.push(InFlight {
                due: due2,
                seq: seq2,
                dgram: dgram.clone(),
            });
        }
        st.heap.push(InFlight { due, seq, dgram });
        drop(st);
        self.notify.notify_one();
        Ok(())
    }
}

pub struct SimSocket {
    fabric: Arc<Fabric>,
    addr: SocketAddr,
    inner: Arc<SockInner>,
}

impl fmt::Debug for SimSocket {
    fn fmt(&self, f: &mut fmt::Formatter<'_>) -> fmt::Result {
        write!(f, "SimSocket({})", self.addr)
    }
}

impl Drop for SimSocket {
    fn drop(&mut self) {
        self.fabric.unbind(self.addr, &self.inner);
    }
}

/// Writable unless the socket used up its send budget for the current virtual millisecond
/// (then: writable again at the next millisecond) or the simulator declared a livelock (then
/// senders park so that the case can end as inconclusive).
struct SimPoller {
    sock: Arc<SimSocket>,
    sleep: Option<Pin<Box<tokio::time::Sleep>>>,
}
impl fmt::Debug for SimPoller {
    fn fmt(&self, f: &mut fmt::Formatter<'_>) -> fmt::Result {
        f.write_str("SimPoller")
    }
}
impl UdpPoller for SimPoller {
    fn poll_writable(mut self: Pin<&mut Self>, cx: &mut Context) -> Poll<io::Result<()>> {
        if self.sock.fabric.livelocked() {
            return Poll::Pending;
        }
        if let Some(sleep) = self.sleep.as_mut() {
            match sleep.as_mut().poll(cx) {
                Poll::Pending => return Poll::Pending,
                Poll::Ready(()) => self.sleep = None,
            }
        }
        let now_ms = self.sock.fabric.now_ms();
        let exhausted = {
            let r = self.sock.inner.rate.lock().unwrap();
            r.0 == now_ms && r.1 >= SEND_BUDGET_PER_MS
        };
        if exhausted {
            let mut sleep = Box::pin(tokio::time::sleep(Duration::from_millis(1)));
            match sleep.as_mut().poll(cx) {
                Poll::Pending => {
                    self.sleep = Some(sleep);
                    Poll::Pending
                }
                Poll::Ready(()) => Poll::Ready(Ok(())),
            }
        } else {
            Poll::Ready(Ok(()))
        }
    }
}

impl AsyncUdpSocket for SimSocket {
    fn create_io_poller(self: Arc<Self>) -> Pin<Box<dyn UdpPoller>> {
        Box::pin(SimPoller { sock: self, sleep: None })
    }

    fn try_send(&self, transmit: &Transmit) -> io::Result<()> {
        if self.inner.detached.load(std::sync::atomic::Ordering::SeqCst) {
            return Ok(()); // sent into the void
        }
        let seg = transmit.segment_size.unwrap_or(transmit.contents.len()).max(1);
        {
            let now_ms = self.fabric.now_ms();
            let mut r = self.inner.rate.lock().unwrap();
            if r.0 != now_ms {
                *r = (now_ms, 0);
            }
            if r.1 >= SEND_BUDGET_PER_MS {
                return Err(io::Error::new(io::ErrorKind::WouldBlock, "sim send budget for this millisecond used up"));
            }
            r.1 += transmit.contents.len().div_ceil(seg) as u64;
        }
        for chunk in transmit.contents.chunks(seg) {
            self.fabric.send(Datagram {
                src: self.addr,
                dst: transmit.destination,
                data: Bytes::copy_from_slice(chunk),
                ecn: transmit.ecn,
            })?;
        }
        Ok(())
    }

    fn poll_recv(
        &self,
        cx: &mut Context,
        bufs: &mut [IoSliceMut<'_>],
        meta: &mut [RecvMeta],
    ) -> Poll<io::Result<usize>> {
        let mut inbox = self.inner.inbox.lock().unwrap();
        if inbox.is_empty() {
            *self.inner.waker.lock().unwrap() = Some(cx.waker().clone());
            return Poll::Pending;
        }
        let mut n = 0;
        while n < bufs.len().min(meta.len()) {
            let Some(d) = inbox.pop_front() else { break };
            let len = d.data.len().min(bufs[n].len());
            bufs[n][..len].copy_from_slice(&d.data[..len]);
            meta[n] = RecvMeta {
                addr: d.src,
                len,
                stride: len,
                ecn: d.ecn,
                dst_ip: Some(self.addr.ip()),
            };
            n += 1;
        }
        Poll::Ready(Ok(n))
    }

    fn local_addr(&self) -> io::Result<SocketAddr> {
        Ok(self.addr)
    }

    fn max_transmit_segments(&self) -> usize {
        10
    }

    fn max_receive_segments(&self) -> usize {
        1
    }

    fn may_fragment(&self) -> bool {
        false
    }
}
