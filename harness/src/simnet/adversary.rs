//! Raw quinn endpoints on the fabric with hand-built rustls configurations: certificates and
//! keys without consistency checks, arbitrary SNI, recording verifiers, raw stream access.

use super::fabric::Fabric;
use rustls::client::danger::{HandshakeSignatureValid, ServerCertVerified, ServerCertVerifier};
use rustls::pki_types::{CertificateDer, PrivateKeyDer, ServerName, UnixTime};
use rustls::server::danger::{ClientCertVerified, ClientCertVerifier};
use rustls::sign::{CertifiedKey, Signer, SigningKey};
use rustls::{DigitallySignedStruct, DistinguishedName, SignatureAlgorithm, SignatureScheme};
use serde::{Deserialize, Serialize};
use std::net::SocketAddr;
use std::sync::{Arc, Mutex};

// ------------------------------------------------------------------ keys and certificates

/// PKCS#8 v1 DER of an Ed25519 private key seed.
pub fn pkcs8_ed25519(seed: &[u8; 32]) -> Vec<u8> {
    let mut der = hex::decode("302e020100300506032b657004220420").unwrap();
    der.extend_from_slice(seed);
    der
}

pub fn ed_keypair(seed: &[u8; 32]) -> rcgen::KeyPair {
    let der = PrivateKeyDer::Pkcs8(pkcs8_ed25519(seed).into());
    rcgen::KeyPair::from_der_and_sign_algo(&der, &rcgen::PKCS_ED25519).expect("ed25519 key")
}

pub fn ed_public(seed: &[u8; 32]) -> [u8; 32] {
    super::peer_id_of_seed(seed).0
}

#[derive(Clone, Copy, Debug, Serialize, Deserialize, PartialEq, Eq, Hash)]
pub enum Validity {
    Valid,
    Expired,
    NotYetValid,
}

fn params(names: &[String], validity: Validity) -> rcgen::CertificateParams {
    let mut p = rcgen::CertificateParams::new(names.to_vec()).expect("names");
    match validity {
        Validity::Valid => {}
        Validity::Expired => {
            p.not_before = rcgen::date_time_ymd(2001, 1, 1);
            p.not_after = rcgen::date_time_ymd(2002, 1, 1);
        }
        Validity::NotYetValid => {
            p.not_before = rcgen::date_time_ymd(2999, 1, 1);
            p.not_after = rcgen::date_time_ymd(3000, 1, 1);
        }
    }
    p
}

/// A self-signed Ed25519 certificate exactly like the ones anemo generates.
pub fn self_signed(seed: &[u8; 32], names: &[String], validity: Validity) -> Vec<u8> {
    params(names, validity)
        .self_signed(&ed_keypair(seed))
        .expect("self signed")
        .der()
        .to_vec()
}

/// A certificate whose subject public key is `subject_seed`'s but which is signed by
/// `issuer_seed`'s key (rcgen `signed_by`).
pub fn signed_by_other(subject_seed: &[u8; 32], issuer_seed: &[u8; 32], names: &[String]) -> Vec<u8> {
    let issuer_key = ed_keypair(issuer_seed);
    let issuer = params(names, Validity::Valid).self_signed(&issuer_key).expect("issuer");
    params(names, Validity::Valid)
        .signed_by(&ed_keypair(subject_seed), &issuer, &issuer_key)
        .expect("signed_by")
        .der()
        .to_vec()
}

/// Self-signed ECDSA P-256 certificate (not an Ed25519 identity at all). Returns (cert, pkcs8).
pub fn ecdsa_self_signed(names: &[String]) -> (Vec<u8>, Vec<u8>) {
    let kp = rcgen::KeyPair::generate_for(&rcgen::PKCS_ECDSA_P256_SHA256).expect("ecdsa");
    let cert = params(names, Validity::Valid).self_signed(&kp).expect("ecdsa cert");
    (cert.der().to_vec(), kp.serialize_der())
}

/// Take `signer_seed`'s self-signed certificate, splice `victim_pub` into its SPKI and re-sign
/// the TBS with `signer_seed`'s key: a well-formed certificate naming the victim's key that the
/// victim never signed.
pub fn spki_spliced_resigned(victim_pub: &[u8; 32], signer_seed: &[u8; 32], names: &[String]) -> Vec<u8> {
    use x509_parser::prelude::FromDer;
    let mut der = self_signed(signer_seed, names, Validity::Valid);
    let own_pub = ed_public(signer_seed);
    let pos = der.windows(32).position(|w| w == own_pub).expect("own key in cert");
    der[pos..pos + 32].copy_from_slice(victim_pub);
    let (tbs_range, sig_range) = {
        let (_, cert) = x509_parser::certificate::X509Certificate::from_der(&der).expect("parse spliced");
        let tbs = cert.tbs_certificate.as_ref();
        let start = tbs.as_ptr() as usize - der.as_ptr() as usize;
        let sig = cert.signature_value.data.as_ref();
        let sstart = sig.as_ptr() as usize - der.as_ptr() as usize;
        ((start, start + tbs.len()), (sstart, sstart + sig.len()))
    };
    let kp = ring::signature::Ed25519KeyPair::from_seed_unchecked(signer_seed).unwrap();
    let sig = kp.sign(&der[tbs_range.0..tbs_range.1]);
    der[sig_range.0..sig_range.1].copy_from_slice(sig.as_ref());
    der
}

/// A certificate that is correctly self-signed by `signer_seed` (SPKI = signer's key) but whose
/// subject/issuer common name contains the DER encoding of an Ed25519 SubjectPublicKeyInfo for
/// `decoy_pub`: anything that finds "the" key by scanning bytes instead of parsing sees the decoy.
pub fn key_shaped_name(decoy_pub: &[u8; 32], signer_seed: &[u8; 32], names: &[String]) -> Vec<u8> {
    use x509_parser::prelude::FromDer;
    let placeholder = "Q".repeat(44);
    let mut p = params(names, Validity::Valid);
    p.distinguished_name = rcgen::DistinguishedName::new();
    p.distinguished_name.push(rcgen::DnType::CommonName, placeholder.clone());
    let mut der = p.self_signed(&ed_keypair(signer_seed)).expect("cert").der().to_vec();
    let mut decoy = hex::decode("302a300506032b6570032100").unwrap();
    decoy.extend_from_slice(decoy_pub);
    // the placeholder appears in issuer and subject
    let mut from = 0;
    while let Some(pos) = der[from..].windows(44).position(|w| w == placeholder.as_bytes()) {
        der[from + pos..from + pos + 44].copy_from_slice(&decoy);
        from += pos + 44;
    }
    let (tbs_range, sig_range) = {
        let (_, cert) = x509_parser::certificate::X509Certificate::from_der(&der).expect("parse");
        let tbs = cert.tbs_certificate.as_ref();
        let start = tbs.as_ptr() as usize - der.as_ptr() as usize;
        let sig = cert.signature_value.data.as_ref();
        let sstart = sig.as_ptr() as usize - der.as_ptr() as usize;
        ((start, start + tbs.len()), (sstart, sstart + sig.len()))
    };
    let kp = ring::signature::Ed25519KeyPair::from_seed_unchecked(signer_seed).unwrap();
    let sig = kp.sign(&der[tbs_range.0..tbs_range.1]);
    der[sig_range.0..sig_range.1].copy_from_slice(sig.as_ref());
    der
}

// ------------------------------------------------------------------ signing keys without checks

#[derive(Clone, Debug, Serialize, Deserialize, PartialEq, Eq, Hash)]
pub enum SignerKind {
    /// a real Ed25519 key (any key: rustls does not check it against the certificate)
    Ed25519([u8; 32]),
    /// 64 bytes of junk labelled ED25519
    Junk,
    /// a valid Ed25519 signature but over a different message
    OtherMessage([u8; 32]),
    /// an ECDSA P-256 key (pkcs8)
    #[serde(with = "crate::hexbytes")]
    EcdsaP256(Vec<u8>),
    /// a real Ed25519 signature labelled with another scheme id
    Mislabelled([u8; 32]),
}

#[derive(Debug)]
pub struct AdvKey(pub SignerKind);

#[derive(Debug)]
struct AdvSigner(SignerKind);

impl SigningKey for AdvKey {
    fn choose_scheme(&self, _offered: &[SignatureScheme]) -> Option<Box<dyn Signer>> {
        // ignore what the peer offered: an adversary signs with whatever it likes
        Some(Box::new(AdvSigner(self.0.clone())))
    }
    fn algorithm(&self) -> SignatureAlgorithm {
        match self.0 {
            SignerKind::EcdsaP256(_) => SignatureAlgorithm::ECDSA,
            _ => SignatureAlgorithm::ED25519,
        }
    }
}

impl Signer for AdvSigner {
    fn sign(&self, message: &[u8]) -> Result<Vec<u8>, rustls::Error> {
        Ok(match &self.0 {
            SignerKind::Ed25519(seed) | SignerKind::Mislabelled(seed) => {
                ring::signature::Ed25519KeyPair::from_seed_unchecked(seed).unwrap().sign(message).as_ref().to_vec()
            }
            SignerKind::Junk => vec![0x5A; 64],
            SignerKind::OtherMessage(seed) => {
                ring::signature::Ed25519KeyPair::from_seed_unchecked(seed).unwrap().sign(b"another message").as_ref().to_vec()
            }
            SignerKind::EcdsaP256(pkcs8) => {
                let rng = ring::rand::SystemRandom::new();
                let kp = ring::signature::EcdsaKeyPair::from_pkcs8(&ring::signature::ECDSA_P256_SHA256_ASN1_SIGNING, pkcs8, &rng)
                    .map_err(|_| rustls::Error::General("ecdsa key".into()))?;
                kp.sign(&rng, message).map_err(|_| rustls::Error::General("ecdsa sign".into()))?.as_ref().to_vec()
            }
        })
    }
    fn scheme(&self) -> SignatureScheme {
        match self.0 {
            SignerKind::EcdsaP256(_) => SignatureScheme::ECDSA_NISTP256_SHA256,
            SignerKind::Mislabelled(_) => SignatureScheme::RSA_PSS_SHA256,
            _ => SignatureScheme::ED25519,
        }
    }
}

/// What a party presents in the handshake: any chain with any signer.
#[derive(Clone, Debug, Serialize, Deserialize, PartialEq, Eq, Hash)]
pub struct Presented {
    #[serde(with = "hexchain")]
    pub chain: Vec<Vec<u8>>,
    pub signer: SignerKind,
}

mod hexchain {
    use serde::{Deserialize, Deserializer, Serialize, Serializer};
    pub fn serialize<S: Serializer>(b: &Vec<Vec<u8>>, s: S) -> Result<S::Ok, S::Error> {
        b.iter().map(hex::encode).collect::<Vec<_>>().serialize(s)
    }
    pub fn deserialize<'de, D: Deserializer<'de>>(d: D) -> Result<Vec<Vec<u8>>, D::Error> {
        let v = Vec::<String>::deserialize(d)?;
        v.into_iter().map(|s| hex::decode(s).map_err(serde::de::Error::custom)).collect()
    }
}

impl Presented {
    pub fn honest(seed: &[u8; 32], name: &str) -> Self {
        Presented {
            chain: vec![self_signed(seed, &[name.to_string()], Validity::Valid)],
            signer: SignerKind::Ed25519(*seed),
        }
    }
    fn certified_key(&self) -> Arc<CertifiedKey> {
        let chain = self.chain.iter().map(|c| CertificateDer::from(c.clone())).collect();
        Arc::new(CertifiedKey::new(chain, Arc::new(AdvKey(self.signer.clone()))))
    }
}

// ------------------------------------------------------------------ verifiers that accept anything and record

pub type Recorded = Arc<Mutex<Vec<Vec<Vec<u8>>>>>;

#[derive(Debug)]
pub struct AcceptAny {
    pub seen: Recorded,
    pub require_client_cert: bool,
}

fn all_schemes() -> Vec<SignatureScheme> {
    vec![
        SignatureScheme::ED25519,
        SignatureScheme::ECDSA_NISTP256_SHA256,
        SignatureScheme::ECDSA_NISTP384_SHA384,
        SignatureScheme::RSA_PSS_SHA256,
        SignatureScheme::RSA_PSS_SHA384,
        SignatureScheme::RSA_PSS_SHA512,
        SignatureScheme::RSA_PKCS1_SHA256,
    ]
}

impl ServerCertVerifier for AcceptAny {
    fn verify_server_cert(&self, end_entity: &CertificateDer<'_>, intermediates: &[CertificateDer<'_>], _name: &ServerName<'_>, _ocsp: &[u8], _now: UnixTime) -> Result<ServerCertVerified, rustls::Error> {
        let mut chain = vec![end_entity.as_ref().to_vec()];
        chain.extend(intermediates.iter().map(|c| c.as_ref().to_vec()));
        self.seen.lock().unwrap().push(chain);
        Ok(ServerCertVerified::assertion())
    }
    fn verify_tls12_signature(&self, _m: &[u8], _c: &CertificateDer<'_>, _d: &DigitallySignedStruct) -> Result<HandshakeSignatureValid, rustls::Error> {
        Ok(HandshakeSignatureValid::assertion())
    }
    fn verify_tls13_signature(&self, _m: &[u8], _c: &CertificateDer<'_>, _d: &DigitallySignedStruct) -> Result<HandshakeSignatureValid, rustls::Error> {
        Ok(HandshakeSignatureValid::assertion())
    }
    fn supported_verify_schemes(&self) -> Vec<SignatureScheme> {
        all_schemes()
    }
}

impl ClientCertVerifier for AcceptAny {
    fn offer_client_auth(&self) -> bool {
        true
    }
    fn client_auth_mandatory(&self) -> bool {
        self.require_client_cert
    }
    fn root_hint_subjects(&self) -> &[DistinguishedName] {
        &[]
    }
    fn verify_client_cert(&self, end_entity: &CertificateDer<'_>, intermediates: &[CertificateDer<'_>], _now: UnixTime) -> Result<ClientCertVerified, rustls::Error> {
        let mut chain = vec![end_entity.as_ref().to_vec()];
        chain.extend(intermediates.iter().map(|c| c.as_ref().to_vec()));
        self.seen.lock().unwrap().push(chain);
        Ok(ClientCertVerified::assertion())
    }
    fn verify_tls12_signature(&self, _m: &[u8], _c: &CertificateDer<'_>, _d: &DigitallySignedStruct) -> Result<HandshakeSignatureValid, rustls::Error> {
        Ok(HandshakeSignatureValid::assertion())
    }
    fn verify_tls13_signature(&self, _m: &[u8], _c: &CertificateDer<'_>, _d: &DigitallySignedStruct) -> Result<HandshakeSignatureValid, rustls::Error> {
        Ok(HandshakeSignatureValid::assertion())
    }
    fn supported_verify_schemes(&self) -> Vec<SignatureScheme> {
        all_schemes()
    }
}

#[derive(Debug)]
struct FixedClientCert(Option<Arc<CertifiedKey>>);
impl rustls::client::ResolvesClientCert for FixedClientCert {
    fn resolve(&self, _hints: &[&[u8]], _schemes: &[SignatureScheme]) -> Option<Arc<CertifiedKey>> {
        self.0.clone()
    }
    fn has_certs(&self) -> bool {
        self.0.is_some()
    }
}

#[derive(Debug)]
struct FixedServerCert(Arc<CertifiedKey>, Arc<Mutex<Vec<Option<String>>>>);
impl rustls::server::ResolvesServerCert for FixedServerCert {
    fn resolve(&self, hello: rustls::server::ClientHello<'_>) -> Option<Arc<CertifiedKey>> {
        self.1.lock().unwrap().push(hello.server_name().map(str::to_string));
        Some(self.0.clone())
    }
}

fn provider() -> Arc<rustls::crypto::CryptoProvider> {
    Arc::new(rustls::crypto::ring::default_provider())
}

pub fn transport() -> Arc<quinn::TransportConfig> {
    let mut t = quinn::TransportConfig::default();
    t.max_idle_timeout(Some(std::time::Duration::from_secs(30).try_into().unwrap()));
    t.keep_alive_interval(Some(std::time::Duration::from_secs(5)));
    Arc::new(t)
}

/// A dialer's config: presents `identity` (or no certificate), accepts and records whatever the
/// server shows.
pub fn client_config(identity: Option<&Presented>, seen: Recorded) -> quinn::ClientConfig {
    client_config_opts(identity, seen, true)
}

/// `send_sni = false`: the hello carries no server name at all.
pub fn client_config_opts(identity: Option<&Presented>, seen: Recorded, send_sni: bool) -> quinn::ClientConfig {
    let mut crypto = rustls::ClientConfig::builder_with_provider(provider())
        .with_protocol_versions(&[&rustls::version::TLS13])
        .unwrap()
        .dangerous()
        .with_custom_certificate_verifier(Arc::new(AcceptAny { seen, require_client_cert: false }))
        .with_client_cert_resolver(Arc::new(FixedClientCert(identity.map(|i| i.certified_key()))));
    crypto.enable_sni = send_sni;
    let mut c = quinn::ClientConfig::new(Arc::new(quinn::crypto::rustls::QuicClientConfig::try_from(crypto).expect("quic client config")));
    c.transport_config(transport());
    c
}

/// A listener's config: presents `identity` whatever name is asked for, accepts and records any
/// client certificate (or none when `require_client_cert` is false).
pub fn server_config(identity: &Presented, require_client_cert: bool, seen: Recorded, sni_seen: Arc<Mutex<Vec<Option<String>>>>) -> quinn::ServerConfig {
    let crypto = rustls::ServerConfig::builder_with_provider(provider())
        .with_protocol_versions(&[&rustls::version::TLS13])
        .unwrap()
        .with_client_cert_verifier(Arc::new(AcceptAny { seen, require_client_cert }))
        .with_cert_resolver(Arc::new(FixedServerCert(identity.certified_key(), sni_seen)));
    let mut s = quinn::ServerConfig::with_crypto(Arc::new(quinn::crypto::rustls::QuicServerConfig::try_from(crypto).expect("quic server config")));
    s.transport = transport();
    s
}

/// A raw quinn endpoint bound on the fabric.
pub fn raw_endpoint(fabric: &Arc<Fabric>, addr: SocketAddr, server: Option<quinn::ServerConfig>) -> std::io::Result<quinn::Endpoint> {
    let sock = fabric.bind(addr)?;
    quinn::Endpoint::new_with_abstract_socket(quinn::EndpointConfig::default(), server, sock, Arc::new(quinn::TokioRuntime))
}

/// Connection ids from a counter (deterministic), every id validates.
struct CountingCids(u64);
impl quinn::ConnectionIdGenerator for CountingCids {
    fn generate_cid(&mut self) -> quinn::ConnectionId {
        self.0 = self.0.wrapping_mul(6364136223846793005).wrapping_add(1442695040888963407);
        quinn::ConnectionId::new(&self.0.to_be_bytes())
    }
    fn cid_len(&self) -> usize { 8 }
    fn cid_lifetime(&self) -> Option<std::time::Duration> { None }
}

/// A raw endpoint whose stateless-reset key is fixed and whose connection ids validate for ever:
/// a later endpoint built the same way at the same address answers packets of its previous
/// life with a valid stateless reset.
pub fn raw_endpoint_remembering_resets(fabric: &Arc<Fabric>, addr: SocketAddr, server: Option<quinn::ServerConfig>, reset_key: &[u8; 64]) -> std::io::Result<quinn::Endpoint> {
    let sock = fabric.bind(addr)?;
    let mut cfg = quinn::EndpointConfig::new(Arc::new(ring::hmac::Key::new(ring::hmac::HMAC_SHA256, reset_key)));
    cfg.cid_generator(|| Box::new(CountingCids(0x9e37_79b9_7f4a_7c15)));
    quinn::Endpoint::new_with_abstract_socket(cfg, server, sock, Arc::new(quinn::TokioRuntime))
}

// ------------------------------------------------------------------ speaking anemo by hand

pub const ENDPOINT_CLOSED: &str = "endpoint closed";
pub const PREAMBLE: [u8; 8] = [b'a', b'n', b'e', b'm', b'o', 0, 1, 0];

/// Dial `addr` claiming `sni`; on TLS success also complete anemo's acknowledgement (read the
/// 8-byte preamble the listener sends on a uni stream). `Ok` = admitted by the listener.
pub async fn dial_and_await_ack(ep: &quinn::Endpoint, cfg: quinn::ClientConfig, addr: SocketAddr, sni: &str) -> Result<quinn::Connection, String> {
    let connecting = ep.connect_with(cfg, addr, sni).map_err(|e| format!("connect: {e}"))?;
    let conn = connecting.await.map_err(|e| format!("tls/quic: {e}"))?;
    let mut uni = conn.accept_uni().await.map_err(|e| format!("no ack stream: {e}"))?;
    let mut buf = [0u8; 8];
    uni.read_exact(&mut buf).await.map_err(|e| format!("ack read: {e}"))?;
    if buf != PREAMBLE {
        return Err(format!("ack is {buf:02x?}"));
    }
    Ok(conn)
}

/// Accept one inbound connection and acknowledge it like an anemo listener does.
pub async fn accept_and_ack(ep: &quinn::Endpoint) -> Result<quinn::Connection, String> {
    let incoming = ep.accept().await.ok_or(ENDPOINT_CLOSED)?;
    let conn = incoming.await.map_err(|e| format!("tls/quic: {e}"))?;
    let mut uni = conn.open_uni().await.map_err(|e| format!("open uni: {e}"))?;
    uni.write_all(&PREAMBLE).await.map_err(|e| format!("ack write: {e}"))?;
    uni.finish().map_err(|e| format!("finish: {e}"))?;
    let _ = uni.stopped().await;
    Ok(conn)
}

/// Send raw bytes as one request stream and read the whole response.
pub async fn raw_rpc(conn: &quinn::Connection, request: &[u8]) -> Result<Vec<u8>, String> {
    let (mut tx, mut rx) = conn.open_bi().await.map_err(|e| format!("open_bi: {e}"))?;
    tx.write_all(request).await.map_err(|e| format!("write: {e}"))?;
    tx.finish().map_err(|e| format!("finish: {e}"))?;
    rx.read_to_end(64 << 20).await.map_err(|e| format!("read: {e}"))
}
