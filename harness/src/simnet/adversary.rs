//! Raw quinn endpoints with hand-built rustls configurations.
