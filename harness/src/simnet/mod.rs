//! Engine A: whole anemo networks on a virtual datagram fabric under tokio's paused clock.

pub mod adversary;
pub mod bed;
pub mod fabric;
pub mod recorder;

pub use fabric::{node_addr, node_of, Fabric, FaultSeg};
pub use recorder::{Ctl, Ev, Rec, Recorder, RecorderService};

use crate::core::Fail;
use anemo::{Network, PeerId};
use std::future::Future;
use std::net::SocketAddr;
use std::sync::Arc;
use std::time::Duration;

/// Deterministic 32-byte private key for node/key index `i`.
pub fn key_seed(i: u64) -> [u8; 32] {
    let mut out = [0u8; 32];
    let mut x = i.wrapping_mul(0xA24BAED4963EE407) ^ 0x1234_5678_9ABC_DEF0;
    for chunk in out.chunks_mut(8) {
        x = x.wrapping_add(0x9E3779B97F4A7C15);
        let mut z = x;
        z = (z ^ (z >> 30)).wrapping_mul(0xBF58476D1CE4E5B9);
        z = (z ^ (z >> 27)).wrapping_mul(0x94D049BB133111EB);
        z ^= z >> 31;
        chunk.copy_from_slice(&z.to_le_bytes());
    }
    out
}

/// The Ed25519 public key (= PeerId) of a private key seed, computed with ring only.
pub fn peer_id_of_seed(seed: &[u8; 32]) -> PeerId {
    use ring::signature::KeyPair;
    let kp = ring::signature::Ed25519KeyPair::from_seed_unchecked(seed).expect("seed");
    let mut id = [0u8; 32];
    id.copy_from_slice(kp.public_key().as_ref());
    PeerId(id)
}

pub struct Sim {
    pub fabric: Arc<Fabric>,
}

/// Runs `f` on a fresh current-thread runtime with the clock paused. Everything spawned by the
/// case is dropped (not polled) when this returns.
pub fn run_sim<F, Fut, T>(fault_seed: u64, link_delay_ms: u64, f: F) -> T
where
    F: FnOnce(Sim) -> Fut,
    Fut: Future<Output = T>,
{
    run_sim_clock(fault_seed, link_delay_ms, true, f)
}

/// Like `run_sim`, but the clock runs in REAL time when `paused` is false: the fabric's delays and
/// all timeouts then cost wall-clock time. Needed for code that reads `std::time::Instant`
/// directly, which the paused tokio clock cannot influence.
pub fn run_sim_clock<F, Fut, T>(fault_seed: u64, link_delay_ms: u64, paused: bool, f: F) -> T
where
    F: FnOnce(Sim) -> Fut,
    Fut: Future<Output = T>,
{
    let rt = tokio::runtime::Builder::new_current_thread()
        .enable_all()
        .start_paused(paused)
        .build()
        .expect("runtime");
    let out = rt.block_on(async move {
        let fabric = Fabric::new(fault_seed, Duration::from_millis(link_delay_ms.max(1)));
        f(Sim { fabric }).await
    });
    // dropping the runtime drops every task of the case without polling it
    rt.shutdown_timeout(Duration::from_secs(5));
    out
}

#[derive(Clone, Debug)]
pub struct NodeSpec {
    pub addr: SocketAddr,
    pub key: [u8; 32],
    pub server_name: String,
    pub alternate_server_name: Option<String>,
    pub config: anemo::Config,
    /// application middleware installed with `Builder::outbound_request_layer`
    pub outbound_layer: Option<OutboundLayer>,
}

/// An application's outbound middleware: optionally lets only `permits` calls through at a time
/// (the others wait inside the layer, like a client-side limiter) and/or adds a header to every
/// request (like a tracing or auth layer).
#[derive(Clone, Debug, Default)]
pub struct OutboundLayer {
    pub gate: Option<Arc<tokio::sync::Semaphore>>,
    pub add_header: Option<(String, String)>,
}

#[derive(Clone)]
pub struct OutboundSvc<S> {
    cfg: OutboundLayer,
    inner: Option<S>,
}

impl<S> tower::Layer<S> for OutboundLayer {
    type Service = OutboundSvc<S>;
    fn layer(&self, inner: S) -> OutboundSvc<S> {
        OutboundSvc { cfg: self.clone(), inner: Some(inner) }
    }
}

impl<S> tower::Service<anemo::Request<bytes::Bytes>> for OutboundSvc<S>
where
    S: tower::Service<anemo::Request<bytes::Bytes>, Response = anemo::Response<bytes::Bytes>, Error = anemo::Error> + Send + 'static,
    S::Future: Send + 'static,
{
    type Response = anemo::Response<bytes::Bytes>;
    type Error = anemo::Error;
    type Future = futures::future::BoxFuture<'static, Result<Self::Response, Self::Error>>;
    fn poll_ready(&mut self, _: &mut std::task::Context<'_>) -> std::task::Poll<Result<(), Self::Error>> {
        std::task::Poll::Ready(Ok(()))
    }
    fn call(&mut self, mut req: anemo::Request<bytes::Bytes>) -> Self::Future {
        let cfg = self.cfg.clone();
        let inner = self.inner.take();
        Box::pin(async move {
            let _permit = match &cfg.gate {
                Some(g) => Some(g.clone().acquire_owned().await),
                None => None,
            };
            if let Some((k, v)) = &cfg.add_header {
                req.headers_mut().insert(k.clone(), v.clone());
            }
            match inner {
                Some(svc) => tower::ServiceExt::oneshot(svc, req).await,
                None => Err(anemo::Error::msg("outbound layer used twice")),
            }
        })
    }
}

impl NodeSpec {
    pub fn new(idx: u8) -> Self {
        NodeSpec {
            addr: node_addr(idx),
            key: key_seed(idx as u64),
            server_name: "simnet".into(),
            alternate_server_name: None,
            config: base_config(),
            outbound_layer: None,
        }
    }
    pub fn peer_id(&self) -> PeerId {
        peer_id_of_seed(&self.key)
    }
}

/// A config suitable for virtual time: generous idle timeout, no background surprises.
pub fn base_config() -> anemo::Config {
    let mut c = anemo::Config::default();
    let mut q = anemo::QuicConfig::default();
    q.max_idle_timeout_ms = Some(30_000);
    q.keep_alive_interval_ms = Some(5_000);
    c.quic = Some(q);
    c.shutdown_idle_timeout_ms = Some(1_000);
    c
}

impl Sim {
    pub fn start_node<S>(&self, spec: &NodeSpec, service: S) -> anyhow::Result<Network>
    where
        S: Clone + Send + 'static,
        S: tower::Service<
            anemo::Request<bytes::Bytes>,
            Response = anemo::Response<bytes::Bytes>,
            Error = std::convert::Infallible,
        >,
        <S as tower::Service<anemo::Request<bytes::Bytes>>>::Future: Send + 'static,
    {
        let sock = self.fabric.bind(spec.addr)?;
        anemo::verif::inject_socket(sock);
        anemo::verif::set_jitter_override(Some(Duration::ZERO));
        let mut b = Network::bind("127.0.0.1:0")
            .server_name(spec.server_name.clone())
            .private_key(spec.key)
            .config(spec.config.clone());
        if let Some(alt) = &spec.alternate_server_name {
            b = b.alternate_server_name(alt.clone());
        }
        if let Some(l) = &spec.outbound_layer {
            b = b.outbound_request_layer(l.clone());
        }
        let r = b.start(service);
        // make sure a failed start never leaves the socket injected for someone else
        anemo::verif::clear_injected_socket();
        r
    }

    pub fn now_ms(&self) -> u64 {
        self.fabric.now_ms()
    }

    /// Fails the case as inconclusive if the simulator itself misbehaved.
    pub fn health(&self) -> Result<(), Fail> {
        if self.fabric.livelocked() {
            return Err(Fail::Inconclusive(
                "simulator livelock: too many sends at one virtual instant".into(),
            ));
        }
        Ok(())
    }
}

/// `tokio::time::timeout` in virtual time; `Err` means the virtual deadline was missed.
pub async fn within<T>(ms: u64, fut: impl Future<Output = T>) -> Result<T, ()> {
    tokio::time::timeout(Duration::from_millis(ms), fut)
        .await
        .map_err(|_| ())
}

pub async fn sleep_ms(ms: u64) {
    tokio::time::sleep(Duration::from_millis(ms)).await
}

/// Turn panics recorded on this thread (anemo tasks run on the case's thread) into a violation.
pub fn check_no_panics(context: &str) -> Result<(), Fail> {
    let recs = crate::panics::peek_thread();
    if let Some(p) = recs.first() {
        return Err(Fail::Violation {
            key: p.key(),
            msg: format!("{context}: {} ({} panics in case)", p.describe(), recs.len()),
        });
    }
    Ok(())
}

/// A started network with its recorder.
pub struct Node {
    pub net: Network,
    pub rec: Arc<Recorder>,
    pub spec: NodeSpec,
}

impl Node {
    pub fn id(&self) -> PeerId {
        self.spec.peer_id()
    }
    pub fn addr(&self) -> SocketAddr {
        self.spec.addr
    }
}

impl Sim {
    /// Starts node `idx` with a recorder service and the given spec.
    pub fn node_with(&self, spec: NodeSpec) -> Result<Node, Fail> {
        let rec = Recorder::new(self.fabric.epoch());
        let net = self
            .start_node(&spec, rec.service())
            .map_err(|e| Fail::Inconclusive(format!("could not start node at {}: {e}", spec.addr)))?;
        if net.peer_id() != spec.peer_id() {
            return Err(Fail::violation(
                "c01:own-id",
                format!("network reports peer id {} for a key whose public key is {}", net.peer_id(), spec.peer_id()),
            ));
        }
        Ok(Node { net, rec, spec })
    }
    pub fn node(&self, idx: u8) -> Result<Node, Fail> {
        self.node_with(NodeSpec::new(idx))
    }
}

/// Build a request whose body starts with a control block.
pub fn ctl_request(route: &str, headers: &[(String, String)], ctl: &Ctl, body_len: usize) -> anemo::Request<bytes::Bytes> {
    let mut r = anemo::Request::new(ctl.encode(body_len)).with_route(route.to_string());
    for (k, v) in headers {
        r.headers_mut().insert(k.clone(), v.clone());
    }
    r
}
