//! Test bed for the direct-drive active-peer set (hook H6): raw quinn endpoints that use anemo's
//! own quinn configurations, so `Connection::new` sees exactly what it sees inside a network.

use super::fabric::{node_addr, Fabric};
use super::{key_seed, peer_id_of_seed};
use anemo::verif::active_peers as hooks;
use anemo::PeerId;
use std::net::SocketAddr;
use std::sync::Arc;

pub struct BedEndpoint {
    pub ep: quinn::Endpoint,
    pub addr: SocketAddr,
    pub id: PeerId,
    pub client: quinn::ClientConfig,
}

pub fn bed_endpoint(fabric: &Arc<Fabric>, node: u8, key: u64) -> anyhow::Result<BedEndpoint> {
    let seed = key_seed(key);
    let cfg = hooks::quinn_configs(&super::base_config(), seed, "simnet", None, None)?;
    let addr = node_addr(node);
    let sock = fabric.bind(addr)?;
    let ep = quinn::Endpoint::new_with_abstract_socket(cfg.endpoint, Some(cfg.server), sock, Arc::new(quinn::TokioRuntime))?;
    debug_assert_eq!(cfg.peer_id, peer_id_of_seed(&seed));
    Ok(BedEndpoint { ep, addr, id: cfg.peer_id, client: cfg.client })
}

/// Establish one connection dialed by `dialer` towards `listener`; returns (dialer's end, listener's end).
pub async fn connect_pair(dialer: &BedEndpoint, listener: &BedEndpoint) -> anyhow::Result<(quinn::Connection, quinn::Connection)> {
    let connecting = dialer.ep.connect_with(dialer.client.clone(), listener.addr, "simnet")?;
    let accept = async {
        let incoming = listener.ep.accept().await.ok_or_else(|| anyhow::anyhow!("listener closed"))?;
        Ok::<_, anyhow::Error>(incoming.await?)
    };
    let (d, l) = tokio::join!(connecting, accept);
    Ok((d?, l?))
}
