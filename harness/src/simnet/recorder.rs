//! Scripted recorder service: behaviour is a pure function of a control block in the request
//! body; every start / finish / drop of a handler is logged with its virtual time.

use anemo::types::response::StatusCode;
use anemo::{Request, Response};
use bytes::{BufMut, Bytes, BytesMut};
use serde::{Deserialize, Serialize};
use std::collections::BTreeMap;
use std::convert::Infallible;
use std::future::Future;
use std::pin::Pin;
use std::sync::atomic::{AtomicI64, Ordering};
use std::sync::{Arc, Mutex};
use std::task::{Context, Poll};
use std::time::Duration;
use tokio::time::Instant;

pub const STATUSES: [u16; 8] = [200, 400, 404, 408, 429, 500, 505, 520];

/// Control block carried at the start of a request body.
#[derive(Clone, Debug, Serialize, Deserialize, PartialEq, Eq, Hash)]
pub struct Ctl {
    pub id: u64,
    /// handler delay in ms
    pub delay_ms: u32,
    /// index into STATUSES
    pub status_idx: u8,
    pub resp_len: u32,
    pub resp_hdrs: u8,
    /// 0 = respond after delay, 1 = never finish
    pub mode: u8,
}

const MAGIC: &[u8; 4] = b"CTL1";
pub const CTL_LEN: usize = 4 + 8 + 4 + 1 + 4 + 1 + 1;

impl Ctl {
    pub fn encode(&self, total_len: usize) -> Bytes {
        let mut b = BytesMut::with_capacity(total_len.max(CTL_LEN));
        b.put_slice(MAGIC);
        b.put_u64(self.id);
        b.put_u32(self.delay_ms);
        b.put_u8(self.status_idx);
        b.put_u32(self.resp_len);
        b.put_u8(self.resp_hdrs);
        b.put_u8(self.mode);
        if total_len > CTL_LEN {
            fill(&mut b, self.id ^ 0x5151, total_len - CTL_LEN);
        }
        b.freeze()
    }
    pub fn decode(body: &[u8]) -> Option<Ctl> {
        if body.len() < CTL_LEN || &body[..4] != MAGIC {
            return None;
        }
        let id = u64::from_be_bytes(body[4..12].try_into().unwrap());
        let delay_ms = u32::from_be_bytes(body[12..16].try_into().unwrap());
        let status_idx = body[16];
        let resp_len = u32::from_be_bytes(body[17..21].try_into().unwrap());
        Some(Ctl {
            id,
            delay_ms,
            status_idx,
            resp_len,
            resp_hdrs: body[21],
            mode: body[22],
        })
    }
    pub fn status(&self) -> u16 {
        STATUSES[self.status_idx as usize % STATUSES.len()]
    }
}

/// Deterministic pseudo-random filler.
pub fn fill(b: &mut BytesMut, seed: u64, len: usize) {
    let mut x = seed;
    let mut left = len;
    while left > 0 {
        x = x.wrapping_add(0x9E3779B97F4A7C15);
        let mut z = x;
        z = (z ^ (z >> 30)).wrapping_mul(0xBF58476D1CE4E5B9);
        z = (z ^ (z >> 27)).wrapping_mul(0x94D049BB133111EB);
        z ^= z >> 31;
        let bytes = z.to_le_bytes();
        let n = left.min(8);
        b.put_slice(&bytes[..n]);
        left -= n;
    }
}

pub fn fnv(data: &[u8]) -> u64 {
    let mut h = 0xcbf29ce484222325u64;
    for b in data {
        h ^= *b as u64;
        h = h.wrapping_mul(0x100000001b3);
    }
    h
}

/// Order-independent hash of a header map.
pub fn headers_hash(h: &std::collections::HashMap<String, String>) -> u64 {
    let sorted: BTreeMap<_, _> = h.iter().collect();
    let mut acc = 0xfeedu64;
    for (k, v) in sorted {
        acc = acc
            .rotate_left(7)
            .wrapping_add(fnv(k.as_bytes()).wrapping_mul(31))
            .wrapping_add(fnv(v.as_bytes()));
    }
    acc ^ (h.len() as u64)
}

/// The response the recorder produces for a request: a pure function F(route, headers, body).
pub struct Expected {
    pub status: u16,
    pub headers: std::collections::HashMap<String, String>,
    pub body: Bytes,
}

pub fn expected_response(
    route: &str,
    headers: &std::collections::HashMap<String, String>,
    body: &[u8],
) -> Expected {
    expected_response_capped(route, headers, body, 32 << 20)
}

/// `cap` bounds the response length a (possibly garbled) control block can ask for.
pub fn expected_response_capped(
    route: &str,
    headers: &std::collections::HashMap<String, String>,
    body: &[u8],
    cap: usize,
) -> Expected {
    let req_hash = fnv(route.as_bytes())
        .rotate_left(13)
        .wrapping_add(headers_hash(headers))
        .rotate_left(11)
        .wrapping_add(fnv(body));
    let mut out = std::collections::HashMap::new();
    out.insert("x-req-hash".to_string(), format!("{req_hash:016x}"));
    // a request may ask for a response header of a given size (used to steer frame sizes)
    if let Some(n) = headers.get("x-resp-pad").and_then(|v| v.parse::<usize>().ok()) {
        if n <= 64 << 20 {
            out.insert("pad".to_string(), "p".repeat(n));
        }
    }
    match Ctl::decode(body) {
        Some(ctl) => {
            out.insert("x-id".to_string(), ctl.id.to_string());
            for i in 0..ctl.resp_hdrs {
                out.insert(format!("h{i}"), format!("v{}-{}", ctl.id, i));
            }
            let len = (ctl.resp_len as usize).min(cap);
            let mut b = BytesMut::with_capacity(len);
            fill(&mut b, ctl.id ^ 0xABCD, len);
            Expected {
                status: ctl.status(),
                headers: out,
                body: b.freeze(),
            }
        }
        None => Expected {
            status: 200,
            headers: out,
            body: Bytes::copy_from_slice(&req_hash.to_be_bytes()),
        },
    }
}

#[derive(Clone, Copy, Debug, PartialEq, Eq, Serialize)]
pub enum Ev {
    Start,
    Finish,
    Drop,
}

#[derive(Clone, Debug, Serialize)]
pub struct Rec {
    pub t_us: u64,
    pub ev: Ev,
    pub id: Option<u64>,
    pub route: String,
    pub hdr_hash: u64,
    pub body_hash: u64,
    pub body_len: usize,
    pub peer: Option<[u8; 32]>,
    pub inbound: Option<bool>,
    pub origin_inbound: Option<bool>,
    pub has_network_ref: bool,
    pub version_v1: bool,
    pub timeout_hdr: Option<String>,
    /// at the moment of this event: does the serving network (reached through the NetworkRef
    /// extension) list the request's peer? None if it cannot be told.
    pub peer_listed: Option<bool>,
}

#[derive(Debug)]
pub struct Recorder {
    pub log: Mutex<Vec<Rec>>,
    pub clones: AtomicI64,
    pub epoch: Instant,
    /// upper bound for response bodies (protects the harness from garbled control blocks)
    pub resp_cap: std::sync::atomic::AtomicUsize,
}

impl Recorder {
    pub fn new(epoch: Instant) -> Arc<Self> {
        Arc::new(Recorder {
            log: Mutex::new(Vec::new()),
            clones: AtomicI64::new(0),
            epoch,
            resp_cap: std::sync::atomic::AtomicUsize::new(32 << 20),
        })
    }
    pub fn service(self: &Arc<Self>) -> RecorderService {
        self.clones.fetch_add(1, Ordering::SeqCst);
        RecorderService { rec: self.clone() }
    }
    pub fn snapshot(&self) -> Vec<Rec> {
        self.log.lock().unwrap().clone()
    }
    pub fn live_clones(&self) -> i64 {
        self.clones.load(Ordering::SeqCst)
    }
    pub fn count(&self, ev: Ev) -> usize {
        self.log.lock().unwrap().iter().filter(|r| r.ev == ev).count()
    }
    pub fn starts_of(&self, id: u64) -> Vec<Rec> {
        self.log
            .lock()
            .unwrap()
            .iter()
            .filter(|r| r.ev == Ev::Start && r.id == Some(id))
            .cloned()
            .collect()
    }
    pub fn find(&self, id: u64, ev: Ev) -> Option<Rec> {
        self.log
            .lock()
            .unwrap()
            .iter()
            .find(|r| r.ev == ev && r.id == Some(id))
            .cloned()
    }
}

pub struct RecorderService {
    rec: Arc<Recorder>,
}

impl Clone for RecorderService {
    fn clone(&self) -> Self {
        self.rec.clones.fetch_add(1, Ordering::SeqCst);
        RecorderService {
            rec: self.rec.clone(),
        }
    }
}

impl Drop for RecorderService {
    fn drop(&mut self) {
        self.rec.clones.fetch_sub(1, Ordering::SeqCst);
    }
}

struct Guard {
    rec: Arc<Recorder>,
    base: Rec,
    finished: bool,
    net: Option<anemo::NetworkRef>,
}

fn listed(net: &Option<anemo::NetworkRef>, peer: &Option<[u8; 32]>) -> Option<bool> {
    let n = net.as_ref()?.upgrade()?;
    let p = (*peer)?;
    Some(n.peers().contains(&anemo::PeerId(p)))
}

impl Drop for Guard {
    fn drop(&mut self) {
        let mut r = self.base.clone();
        r.t_us = (Instant::now() - self.rec.epoch).as_micros() as u64;
        r.ev = if self.finished { Ev::Finish } else { Ev::Drop };
        r.peer_listed = listed(&self.net, &r.peer);
        self.rec.log.lock().unwrap().push(r);
    }
}

impl tower::Service<Request<Bytes>> for RecorderService {
    type Response = Response<Bytes>;
    type Error = Infallible;
    type Future = Pin<Box<dyn Future<Output = Result<Response<Bytes>, Infallible>> + Send>>;

    fn poll_ready(&mut self, _cx: &mut Context<'_>) -> Poll<Result<(), Infallible>> {
        Poll::Ready(Ok(()))
    }

    fn call(&mut self, req: Request<Bytes>) -> Self::Future {
        let rec = self.rec.clone();
        // hold a clone of the service for as long as the handler lives, like a real service
        // that captured its state would
        let held = self.clone();
        Box::pin(async move {
            let _held = held;
            let ctl = Ctl::decode(req.body());
            let base = Rec {
                t_us: (Instant::now() - rec.epoch).as_micros() as u64,
                ev: Ev::Start,
                id: ctl.as_ref().map(|c| c.id),
                route: req.route().to_string(),
                hdr_hash: headers_hash(req.headers()),
                body_hash: fnv(req.body()),
                body_len: req.body().len(),
                peer: req.peer_id().map(|p| p.0),
                inbound: req
                    .extensions()
                    .get::<anemo::Direction>()
                    .map(|d| matches!(*d, anemo::Direction::Inbound)),
                origin_inbound: req
                    .extensions()
                    .get::<anemo::ConnectionOrigin>()
                    .map(|o| matches!(*o, anemo::ConnectionOrigin::Inbound)),
                has_network_ref: req.extensions().get::<anemo::NetworkRef>().is_some(),
                version_v1: req.version() == anemo::types::Version::V1,
                timeout_hdr: req.headers().get("timeout").cloned(),
                peer_listed: None,
            };
            let net = req.extensions().get::<anemo::NetworkRef>().cloned();
            let mut base = base;
            base.peer_listed = listed(&net, &base.peer);
            rec.log.lock().unwrap().push(base.clone());
            let mut guard = Guard {
                rec: rec.clone(),
                base,
                finished: false,
                net,
            };
            let exp = expected_response_capped(req.route(), req.headers(), req.body(), rec.resp_cap.load(Ordering::Relaxed));
            if let Some(ctl) = &ctl {
                if ctl.mode == 1 {
                    futures::future::pending::<()>().await;
                }
                if ctl.mode >= 2 && ctl.delay_ms > 0 {
                    // the same total time spent in many short waits of (mode) ms each: a handler
                    // that keeps making progress (and keeps being polled)
                    let slice = ctl.mode as u64;
                    let mut left = ctl.delay_ms as u64;
                    while left > 0 {
                        let d = left.min(slice);
                        tokio::time::sleep(Duration::from_millis(d)).await;
                        left -= d;
                    }
                } else if ctl.delay_ms > 0 {
                    tokio::time::sleep(Duration::from_millis(ctl.delay_ms as u64)).await;
                }
            }
            guard.finished = true;
            drop(guard);
            let mut resp = Response::new(exp.body)
                .with_status(StatusCode::new(exp.status).unwrap_or(StatusCode::Unknown));
            *resp.headers_mut() = exp.headers;
            Ok(resp)
        })
    }
}
