//! The connected-peer set and the change log it must emit, written from the statement:
//! at most one connection per peer; when a second connection to the same peer appears, keep the
//! connection dialed by the greater id (a newer connection with the same dialer replaces the
//! older one); events are an exact change log of the listing.

use std::collections::BTreeMap;

pub type Id = [u8; 32];

#[derive(Clone, Copy, Debug, PartialEq, Eq)]
pub enum Origin {
    Inbound,
    Outbound,
}

#[derive(Clone, Debug, PartialEq, Eq)]
pub enum Event {
    New(Id),
    Lost(Id),
}

/// Who dialed a connection seen from `own`'s side.
pub fn dialer(own: &Id, remote: &Id, origin: Origin) -> Id {
    match origin {
        Origin::Outbound => *own,
        Origin::Inbound => *remote,
    }
}

/// true = the new connection replaces the existing one
pub fn replaces(own: &Id, remote: &Id, existing: Origin, new: Origin) -> bool {
    let de = dialer(own, remote, existing);
    let dn = dialer(own, remote, new);
    if de == dn {
        true // same dialer dialed again: the older connection is dropped
    } else {
        dn > de // keep the connection dialed by the greater id
    }
}

#[derive(Clone, Debug)]
pub struct Model {
    pub own: Id,
    /// peer -> (connection tag, origin)
    pub peers: BTreeMap<Id, (u64, Origin)>,
    pub log: Vec<Event>,
}

#[derive(Clone, Debug, PartialEq, Eq)]
pub enum AddOutcome {
    Inserted,
    /// (tag of the connection that was closed)
    Replaced(u64),
    Refused,
}

impl Model {
    pub fn new(own: Id) -> Self {
        Model { own, peers: BTreeMap::new(), log: Vec::new() }
    }
    pub fn add(&mut self, peer: Id, tag: u64, origin: Origin) -> AddOutcome {
        match self.peers.get(&peer).copied() {
            None => {
                self.peers.insert(peer, (tag, origin));
                self.log.push(Event::New(peer));
                AddOutcome::Inserted
            }
            Some((old, existing)) => {
                if replaces(&self.own, &peer, existing, origin) {
                    self.peers.insert(peer, (tag, origin));
                    self.log.push(Event::Lost(peer));
                    self.log.push(Event::New(peer));
                    AddOutcome::Replaced(old)
                } else {
                    AddOutcome::Refused
                }
            }
        }
    }
    /// returns the tag of the connection that was closed
    pub fn remove(&mut self, peer: &Id) -> Option<u64> {
        let r = self.peers.remove(peer).map(|(t, _)| t);
        if r.is_some() {
            self.log.push(Event::Lost(*peer));
        }
        r
    }
    /// the end of an older, replaced connection never removes its replacement
    pub fn remove_tag(&mut self, peer: &Id, tag: u64) -> bool {
        match self.peers.get(peer) {
            Some((t, _)) if *t == tag => {
                self.peers.remove(peer);
                self.log.push(Event::Lost(*peer));
                true
            }
            _ => false,
        }
    }
    pub fn listing(&self) -> Vec<Id> {
        self.peers.keys().copied().collect()
    }
}

/// Applies events to a snapshot; `Err` if the stream is not a change log of a set
/// (New for a listed peer, Lost for an unlisted one).
pub fn replay(snapshot: &[Id], events: &[Event]) -> Result<Vec<Id>, String> {
    let mut set: std::collections::BTreeSet<Id> = snapshot.iter().copied().collect();
    if set.len() != snapshot.len() {
        return Err("duplicate peer in snapshot".into());
    }
    for (i, e) in events.iter().enumerate() {
        match e {
            Event::New(p) => {
                if !set.insert(*p) {
                    return Err(format!("event {i}: NewPeer({}) for a peer that is already listed (no alternation)", hex::encode(&p[..4])));
                }
            }
            Event::Lost(p) => {
                if !set.remove(p) {
                    return Err(format!("event {i}: LostPeer({}) for a peer that is not listed (no alternation)", hex::encode(&p[..4])));
                }
            }
        }
    }
    Ok(set.into_iter().collect())
}
