//! Deadline arithmetic written from the property statement: the time a request may take is the
//! smaller of the local default for its direction and the timeout header (either may be
//! absent; an unparsable header counts as absent).

/// Header value -> nanoseconds. Decimal digits only, must fit a u64.
pub fn parse_header(v: Option<&str>) -> Option<u64> {
    let v = v?;
    if v.is_empty() || !v.bytes().all(|b| b.is_ascii_digit()) {
        return None;
    }
    let mut acc: u64 = 0;
    for b in v.bytes() {
        acc = acc.checked_mul(10)?.checked_add((b - b'0') as u64)?;
    }
    Some(acc)
}

pub fn min_opt(a: Option<u64>, b: Option<u64>) -> Option<u64> {
    match (a, b) {
        (None, x) | (x, None) => x,
        (Some(x), Some(y)) => Some(x.min(y)),
    }
}

#[derive(Clone, Copy, Debug, PartialEq, Eq)]
pub enum Outcome {
    Success,
    RequestTimeout,
    CallerTimeout,
}

#[derive(Clone, Debug)]
pub struct Prediction {
    /// outcomes the statement allows (two when the case sits on a boundary within `tol`)
    pub allowed: Vec<Outcome>,
    /// caller-side deadline in ns (None = unlimited)
    pub dc: Option<u64>,
    /// serving-side deadline in ns
    pub ds: Option<u64>,
    /// expected time from call to result, ns, for each allowed outcome
    pub t_success: Option<u64>,
    pub t_request_timeout: Option<u64>,
    pub t_caller_timeout: Option<u64>,
}

/// `handler_ns`: None = never finishes. `rtt_ns`: request + response transit.
pub fn predict(
    outbound_default: Option<u64>,
    inbound_default: Option<u64>,
    header: Option<&str>,
    handler_ns: Option<u64>,
    rtt_ns: u64,
    tol_ns: u64,
) -> Prediction {
    let h = parse_header(header);
    let dc = min_opt(outbound_default, h);
    let ds = min_opt(inbound_default, h);
    let mut allowed = Vec::new();
    // what the serving side does
    let mut serving: Vec<(Outcome, u64)> = Vec::new();
    match (handler_ns, ds) {
        (Some(hn), None) => serving.push((Outcome::Success, hn)),
        (None, Some(d)) => serving.push((Outcome::RequestTimeout, d)),
        (Some(hn), Some(d)) => {
            if hn.saturating_add(tol_ns) <= d || hn <= d && hn.abs_diff(d) <= tol_ns {
                serving.push((Outcome::Success, hn));
            }
            if hn > d.saturating_add(tol_ns) || hn.abs_diff(d) <= tol_ns {
                serving.push((Outcome::RequestTimeout, d));
            }
            if hn > d && hn.abs_diff(d) <= tol_ns && !serving.iter().any(|s| s.0 == Outcome::Success) {
                serving.push((Outcome::Success, hn));
            }
        }
        (None, None) => {}
    }
    let mut t_success = None;
    let mut t_request_timeout = None;
    let mut t_caller_timeout = None;
    for (o, t) in &serving {
        let total = t.saturating_add(rtt_ns);
        let beats_caller = match dc {
            None => true,
            Some(d) => total <= d.saturating_add(tol_ns),
        };
        let loses_to_caller = match dc {
            None => false,
            Some(d) => total.saturating_add(tol_ns) >= d,
        };
        if beats_caller {
            allowed.push(*o);
            match o {
                Outcome::Success => t_success = Some(total),
                Outcome::RequestTimeout => t_request_timeout = Some(total),
                _ => {}
            }
        }
        if loses_to_caller && !allowed.contains(&Outcome::CallerTimeout) {
            allowed.push(Outcome::CallerTimeout);
            t_caller_timeout = dc;
        }
    }
    if serving.is_empty() {
        if let Some(d) = dc {
            allowed.push(Outcome::CallerTimeout);
            t_caller_timeout = Some(d);
        }
    }
    Prediction { allowed, dc, ds, t_success, t_request_timeout, t_caller_timeout }
}
