//! Hand-written encoder and decoder for the anemo wire format (no serde, no bincode crate).
//!
//! Layout: `anemo` | u16 BE version | 0x00 | u32 BE len | header | u32 BE len | body
//! request header  = string(route) map(headers)
//! response header = u16 LE status map(headers)
//! string = u64 LE byte length + UTF-8 bytes; map = u64 LE entry count + (string, string)*

pub const PREAMBLE_V1: [u8; 8] = [b'a', b'n', b'e', b'm', b'o', 0, 1, 0];
pub const DEFAULT_MAX_FRAME: usize = 8 * 1024 * 1024;
pub const STATUS_CODES: [u16; 8] = [200, 400, 404, 408, 429, 500, 505, 520];

#[derive(Clone, Debug, PartialEq, Eq)]
pub struct RefRequest {
    pub version: u16,
    pub route: String,
    pub headers: Vec<(String, String)>,
    pub body: Vec<u8>,
}

#[derive(Clone, Debug, PartialEq, Eq)]
pub struct RefResponse {
    pub version: u16,
    pub status: u16,
    pub headers: Vec<(String, String)>,
    pub body: Vec<u8>,
}

#[derive(Clone, Debug, PartialEq, Eq)]
pub enum RefErr {
    Truncated,
    BadPreamble,
    BadVersion(u16),
    FrameTooBig(usize),
    BadHeader(&'static str),
    BadStatus(u16),
}

fn put_str(out: &mut Vec<u8>, s: &str) {
    out.extend_from_slice(&(s.len() as u64).to_le_bytes());
    out.extend_from_slice(s.as_bytes());
}

fn put_map(out: &mut Vec<u8>, headers: &[(String, String)]) {
    out.extend_from_slice(&(headers.len() as u64).to_le_bytes());
    for (k, v) in headers {
        put_str(out, k);
        put_str(out, v);
    }
}

pub fn preamble(version: u16) -> [u8; 8] {
    let v = version.to_be_bytes();
    [b'a', b'n', b'e', b'm', b'o', v[0], v[1], 0]
}

pub fn request_header_bytes(route: &str, headers: &[(String, String)]) -> Vec<u8> {
    let mut h = Vec::new();
    put_str(&mut h, route);
    put_map(&mut h, headers);
    h
}

pub fn response_header_bytes(status: u16, headers: &[(String, String)]) -> Vec<u8> {
    let mut h = Vec::new();
    h.extend_from_slice(&status.to_le_bytes());
    put_map(&mut h, headers);
    h
}

fn frame(out: &mut Vec<u8>, payload: &[u8]) {
    out.extend_from_slice(&(payload.len() as u32).to_be_bytes());
    out.extend_from_slice(payload);
}

pub fn encode_request(r: &RefRequest) -> Vec<u8> {
    let mut out = preamble(r.version).to_vec();
    frame(&mut out, &request_header_bytes(&r.route, &r.headers));
    frame(&mut out, &r.body);
    out
}

pub fn encode_response(r: &RefResponse) -> Vec<u8> {
    let mut out = preamble(r.version).to_vec();
    frame(&mut out, &response_header_bytes(r.status, &r.headers));
    frame(&mut out, &r.body);
    out
}

struct Cur<'a> {
    b: &'a [u8],
    p: usize,
}

impl<'a> Cur<'a> {
    fn take(&mut self, n: usize) -> Option<&'a [u8]> {
        if self.b.len() - self.p < n {
            return None;
        }
        let s = &self.b[self.p..self.p + n];
        self.p += n;
        Some(s)
    }
    fn u64le(&mut self) -> Option<u64> {
        self.take(8).map(|s| u64::from_le_bytes(s.try_into().unwrap()))
    }
    fn string(&mut self) -> Result<String, RefErr> {
        let n = self.u64le().ok_or(RefErr::BadHeader("string length"))?;
        let n = usize::try_from(n).map_err(|_| RefErr::BadHeader("string length overflow"))?;
        let s = self.take(n).ok_or(RefErr::BadHeader("string bytes"))?;
        String::from_utf8(s.to_vec()).map_err(|_| RefErr::BadHeader("utf8"))
    }
    fn map(&mut self) -> Result<Vec<(String, String)>, RefErr> {
        let n = self.u64le().ok_or(RefErr::BadHeader("map length"))?;
        let mut out: Vec<(String, String)> = Vec::new();
        for _ in 0..n {
            let k = self.string()?;
            let v = self.string()?;
            // a map: a later duplicate key replaces the earlier value
            if let Some(e) = out.iter_mut().find(|(ek, _)| *ek == k) {
                e.1 = v;
            } else {
                out.push((k, v));
            }
        }
        Ok(out)
    }
}

/// Splits `bytes` into (version, header frame, body frame, bytes consumed).
pub fn split_frames(bytes: &[u8], max_frame: usize) -> Result<(u16, &[u8], &[u8], usize), RefErr> {
    if bytes.len() < 8 {
        return Err(RefErr::Truncated);
    }
    if &bytes[..5] != b"anemo" || bytes[7] != 0 {
        return Err(RefErr::BadPreamble);
    }
    let version = u16::from_be_bytes([bytes[5], bytes[6]]);
    if version != 1 {
        return Err(RefErr::BadVersion(version));
    }
    let mut p = 8;
    let mut frames = [&bytes[0..0]; 2];
    for f in frames.iter_mut() {
        if bytes.len() - p < 4 {
            return Err(RefErr::Truncated);
        }
        let n = u32::from_be_bytes(bytes[p..p + 4].try_into().unwrap()) as usize;
        if n > max_frame {
            return Err(RefErr::FrameTooBig(n));
        }
        p += 4;
        if bytes.len() - p < n {
            return Err(RefErr::Truncated);
        }
        *f = &bytes[p..p + n];
        p += n;
    }
    Ok((version, frames[0], frames[1], p))
}

/// Headers are returned sorted by key so that comparisons are order-independent.
pub fn decode_request(bytes: &[u8], max_frame: usize) -> Result<(RefRequest, usize), RefErr> {
    let (version, h, body, used) = split_frames(bytes, max_frame)?;
    let mut c = Cur { b: h, p: 0 };
    let route = c.string()?;
    let mut headers = c.map()?;
    headers.sort();
    Ok((
        RefRequest {
            version,
            route,
            headers,
            body: body.to_vec(),
        },
        used,
    ))
}

pub fn decode_response(bytes: &[u8], max_frame: usize) -> Result<(RefResponse, usize), RefErr> {
    let (version, h, body, used) = split_frames(bytes, max_frame)?;
    let mut c = Cur { b: h, p: 0 };
    let s = c.take(2).ok_or(RefErr::BadHeader("status"))?;
    let status = u16::from_le_bytes([s[0], s[1]]);
    let mut headers = c.map()?;
    headers.sort();
    if !STATUS_CODES.contains(&status) {
        return Err(RefErr::BadStatus(status));
    }
    Ok((
        RefResponse {
            version,
            status,
            headers,
            body: body.to_vec(),
        },
        used,
    ))
}

/// Literal golden vectors (hex), written by hand from the layout above.
pub const GOLDEN_REQUEST: &str = concat!(
    "616e656d6f000100",         // "anemo", version 1 BE, reserved 0
    "00000026",                 // header frame: 38 bytes
    "0300000000000000", "2f6162", // route "/ab"
    "0100000000000000",         // one header
    "0100000000000000", "6b",   // "k"
    "0200000000000000", "7676", // "vv"
    "00000003", "010203"        // body frame
);
pub const GOLDEN_RESPONSE: &str = concat!(
    "616e656d6f000100",
    "0000000a",                 // header frame: 10 bytes
    "9401",                     // status 404 LE
    "0000000000000000",         // no headers
    "00000000"                  // empty body frame
);
