//! Independent acceptance predicate for a self-signed anemo certificate, using x509-parser and
//! ring only: Ed25519 SPKI, self-signature over the TBS bytes under that SPKI, validity window,
//! SAN contains an accepted DNS name. Deliberately lenient where encodings allow it: it is used
//! one-directionally ("implementation accepts => reference accepts").

use x509_parser::prelude::*;

pub const OID_ED25519: &str = "1.3.101.112";

#[derive(Clone, Debug, PartialEq, Eq)]
pub enum Reject {
    Parse,
    NotEd25519Key,
    NotEd25519Signature,
    BadSelfSignature,
    OutsideValidity,
    NoMatchingName,
}

/// The Ed25519 key in the SPKI, if the certificate parses and has one.
pub fn spki_key(der: &[u8]) -> Result<[u8; 32], Reject> {
    let (_, cert) = X509Certificate::from_der(der).map_err(|_| Reject::Parse)?;
    let spki = cert.public_key();
    if spki.algorithm.algorithm.to_id_string() != OID_ED25519 {
        return Err(Reject::NotEd25519Key);
    }
    let key: &[u8] = spki.subject_public_key.data.as_ref();
    key.try_into().map_err(|_| Reject::NotEd25519Key)
}

fn dns_matches(presented: &str, wanted: &str) -> bool {
    let p = presented.trim_end_matches('.').to_ascii_lowercase();
    let w = wanted.trim_end_matches('.').to_ascii_lowercase();
    if p == w {
        return true;
    }
    if let Some(rest) = p.strip_prefix("*.") {
        if let Some((_, wrest)) = w.split_once('.') {
            return rest == wrest;
        }
    }
    false
}

/// `Ok(key)` if the certificate is a valid self-signed anemo identity for one of `names` at
/// `now` (unix seconds); `key` is the identity it proves.
pub fn accept(der: &[u8], names: &[String], now: u64) -> Result<[u8; 32], Reject> {
    let key = spki_key(der)?;
    let (_, cert) = X509Certificate::from_der(der).map_err(|_| Reject::Parse)?;
    if cert.signature_algorithm.algorithm.to_id_string() != OID_ED25519 {
        return Err(Reject::NotEd25519Signature);
    }
    let pk = ring::signature::UnparsedPublicKey::new(&ring::signature::ED25519, &key);
    pk.verify(cert.tbs_certificate.as_ref(), cert.signature_value.data.as_ref())
        .map_err(|_| Reject::BadSelfSignature)?;
    let nb = cert.validity().not_before.timestamp();
    let na = cert.validity().not_after.timestamp();
    if (now as i64) < nb || (now as i64) > na {
        return Err(Reject::OutsideValidity);
    }
    let mut ok = false;
    if let Ok(Some(san)) = cert.subject_alternative_name() {
        for gn in &san.value.general_names {
            if let GeneralName::DNSName(d) = gn {
                if names.iter().any(|n| dns_matches(d, n)) {
                    ok = true;
                }
            }
        }
    }
    if !ok {
        return Err(Reject::NoMatchingName);
    }
    Ok(key)
}

/// Is `sig` a valid Ed25519 signature over `msg` under the certificate's SPKI key?
pub fn signature_valid(cert_der: &[u8], msg: &[u8], sig: &[u8]) -> bool {
    match spki_key(cert_der) {
        Ok(key) => ring::signature::UnparsedPublicKey::new(&ring::signature::ED25519, &key).verify(msg, sig).is_ok(),
        Err(_) => false,
    }
}
