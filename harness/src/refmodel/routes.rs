//! Route matching by plain string comparison: exact paths match by equality, `/x/*tail`
//! matches every path with the prefix `/x/`. Layer bookkeeping for `route_layer` / `merge`.

#[derive(Clone, Debug, PartialEq, Eq)]
pub struct MRoute {
    pub pattern: String,
    pub svc: u32,
    /// layer tags in application order (innermost first)
    pub layers: Vec<u32>,
}

#[derive(Clone, Debug, Default)]
pub struct MRouter {
    pub routes: Vec<MRoute>,
}

/// `Some(prefix)` (ending in '/') if the pattern has a wildcard tail.
pub fn wildcard_prefix(pattern: &str) -> Option<&str> {
    let star = pattern.rfind("/*")?;
    Some(&pattern[..=star])
}

pub fn matches(pattern: &str, path: &str) -> bool {
    match wildcard_prefix(pattern) {
        Some(prefix) => path.starts_with(prefix),
        None => path == pattern,
    }
}

impl MRouter {
    pub fn route(&mut self, pattern: &str, svc: u32) {
        self.routes.push(MRoute {
            pattern: pattern.to_string(),
            svc,
            layers: Vec::new(),
        });
    }
    /// a route layer applies to exactly the routes registered before it
    pub fn route_layer(&mut self, tag: u32) {
        for r in &mut self.routes {
            r.layers.push(tag);
        }
    }
    /// merging preserves every route's service and its route-level middleware
    pub fn merge(&mut self, other: MRouter) {
        self.routes.extend(other.routes);
    }
    pub fn lookup(&self, path: &str) -> Vec<&MRoute> {
        self.routes.iter().filter(|r| matches(&r.pattern, path)).collect()
    }
}
