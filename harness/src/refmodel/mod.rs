//! Reference models: written from the property statements and the documented formats,
//! independently of the implementation.
pub mod deadline;
pub mod peerset;
pub mod routes;
pub mod wire;
pub mod x509ref;
