//! Oracles shared by the cargo-fuzz targets (/verif/fuzz) and `vcheck replay`.
//! Each takes raw bytes and returns `Err(message)` on a property violation.

use crate::core::{Fail, Obs};
use crate::props::{c01, c06, c07, c16};
use crate::refmodel::wire as rw;
use arbitrary::Unstructured;
use futures::FutureExt;

fn msg(r: Result<impl Sized, Fail>) -> Result<(), String> {
    match r {
        Ok(_) => Ok(()),
        Err(Fail::Violation { key, msg }) => Err(format!("{key}: {msg}")),
        Err(Fail::Inconclusive(_)) => Ok(()),
    }
}

/// C07: the request decoder against the hand-written reference, plus re-encode stability.
pub fn wire_request(data: &[u8]) -> Result<(), String> {
    let cfg = anemo::Config::default();
    msg(c07::check_decode(&cfg, true, data))?;
    reencode(&cfg, true, data)
}

pub fn wire_response(data: &[u8]) -> Result<(), String> {
    let cfg = anemo::Config::default();
    msg(c07::check_decode(&cfg, false, data))?;
    reencode(&cfg, false, data)
}

fn reencode(cfg: &anemo::Config, is_request: bool, data: &[u8]) -> Result<(), String> {
    // accepted input -> re-encode -> decode again must be stable and follow the layout
    if let Ok(Ok(d)) = c07::impl_decode(cfg, is_request, data) {
        let mut out = Vec::new();
        let r = match d {
            c07::Decoded::Req(r) => anemo::verif::wire::write_request(cfg, &mut out, r).now_or_never(),
            c07::Decoded::Resp(r) => anemo::verif::wire::write_response(cfg, &mut out, r).now_or_never(),
        };
        match r {
            Some(Ok(())) => {}
            other => return Err(format!("c07:reencode: re-encoding a decoded message failed: {:?}", other.map(|r| r.map_err(|e| e.to_string())))),
        }
        let a = if is_request { rw::decode_request(data, usize::MAX).map(|(r, _)| (r.route, r.headers, r.body, 0u16)) } else { rw::decode_response(data, usize::MAX).map(|(r, _)| (String::new(), r.headers, r.body, r.status)) };
        let b = if is_request { rw::decode_request(&out, usize::MAX).map(|(r, n)| ((r.route, r.headers, r.body, 0u16), n)) } else { rw::decode_response(&out, usize::MAX).map(|(r, n)| ((String::new(), r.headers, r.body, r.status), n)) };
        match (a, b) {
            (Ok(a), Ok((b, used))) if a == b && used == out.len() => {}
            (a, b) => return Err(format!("c07:reencode: decode -> encode -> decode is not stable: {:?} vs {:?}", a.map(|x| (x.0, x.1.len(), x.2.len())), b.map(|x| ((x.0).0, (x.0).1.len(), (x.0).2.len())))),
        }
    }
    Ok(())
}

/// C16: bytes -> (route table, probe strings) -> the routing oracle.
pub fn router(data: &[u8]) -> Result<(), String> {
    let mut u = Unstructured::new(data);
    fn ops(u: &mut Unstructured, depth: u32) -> Vec<c16::Op> {
        let n = u.int_in_range(0..=6u8).unwrap_or(0);
        let mut v = Vec::new();
        for _ in 0..n {
            let k = u.int_in_range(0..=9u8).unwrap_or(0);
            v.push(match k {
                0..=5 => {
                    let segs = u.int_in_range(0..=3u8).unwrap_or(0);
                    let mut p = String::new();
                    for _ in 0..segs {
                        p.push('/');
                        p.push_str(["a", "b", "x", "ab", "svc.Name", "é", "A", "a%20b"][u.int_in_range(0..=7usize).unwrap_or(0)]);
                    }
                    match u.int_in_range(0..=3u8).unwrap_or(0) {
                        0 => p.push_str("/*t"),
                        1 => p.push('/'),
                        _ => if p.is_empty() { p.push('/') },
                    }
                    c16::Op::Route(p)
                }
                6 => c16::Op::Rpc(u.int_in_range(0..=2u8).unwrap_or(0)),
                7 | 8 => c16::Op::Layer,
                _ if depth > 0 => c16::Op::Merge(ops(u, depth - 1)),
                _ => c16::Op::Layer,
            });
        }
        v
    }
    let table = ops(&mut u, 2);
    let mut probes = Vec::new();
    while !u.is_empty() && probes.len() < 16 {
        if u.ratio(1, 2).unwrap_or(false) {
            probes.push(c16::Probe::FromPattern { pat: u.arbitrary().unwrap_or(0), variant: u.int_in_range(0..=7u8).unwrap_or(0), tail: "q".into() });
        } else {
            let n = u.int_in_range(0..=24usize).unwrap_or(0);
            let bytes = u.bytes(n.min(u.len())).unwrap_or(&[]);
            probes.push(c16::Probe::Raw(String::from_utf8_lossy(bytes).into_owned()));
        }
    }
    let mut obs = Obs::default();
    msg(c16::check(&c16::Case { table, probes }, &mut obs))
}

/// C01: bytes as a certificate offered to all three verifiers (security oracle).
pub fn cert_verify(data: &[u8]) -> Result<(), String> {
    msg(c01::fuzz_cert(data))
}

/// C06: bytes as one inbound request stream: decode -> Router -> encode; never a panic, and the
/// response (if any) follows the layout.
pub fn inbound_stream(data: &[u8]) -> Result<(), String> {
    msg(c06::fuzz_stream(data))
}

/// Seed corpora generated from valid messages/certificates.
pub fn seed_corpus(target: &str) -> Vec<Vec<u8>> {
    let mut out = Vec::new();
    match target {
        "wire_request" | "wire_response" | "inbound_stream" => {
            let is_req = target != "wire_response";
            for (i, route) in ["/exact", "/wild/a/b", "/svc.Name/method", "", "/"].iter().enumerate() {
                let m = c07::Msg { is_request: is_req, route: route.to_string(), status_idx: i as u8, headers: (0..i).map(|k| (format!("k{k}"), format!("v{k}"))).collect(), body_len: (i * 37) as u32, body_seed: i as u64, shuffle: 0, with_extension: false, cuts: vec![] };
                out.push(m.ref_bytes());
            }
            out.push(hex::decode(rw::GOLDEN_REQUEST).unwrap());
            out.push(hex::decode(rw::GOLDEN_RESPONSE).unwrap());
            out.push(rw::PREAMBLE_V1.to_vec());
        }
        "cert_verify" => out = c01::fuzz_cert_seeds(),
        "router" => {
            out.push(vec![3, 0, 1, 0, 2, 0, 6, 1, 7, 9, 2, 0, 1, 1, 1, 0, 0, 0, 1, 2, 3]);
            out.push((0..64u8).collect());
        }
        _ => {}
    }
    out
}

/// Entry point used by the cargo-fuzz targets. libfuzzer-sys installs a panic hook that aborts on
/// ANY panic, including the ones an oracle catches on purpose (e.g. 'Invalid route' while building
/// a route table). So the harness hook replaces it, panics that escape the oracle and property
/// violations abort the process explicitly, and caught panics do not.
pub fn guarded(target: &str, data: &[u8]) {
    static HOOK: std::sync::Once = std::sync::Once::new();
    HOOK.call_once(|| {
        let _ = std::panic::take_hook();
        crate::panics::install();
    });
    crate::panics::clear_thread();
    match std::panic::catch_unwind(|| run_target(target, data)) {
        Ok(Some(Ok(()))) | Ok(None) => {}
        Ok(Some(Err(msg))) => {
            eprintln!("PROPERTY VIOLATION: {msg}");
            std::process::abort();
        }
        Err(_) => {
            let recs = crate::panics::take_thread();
            eprintln!("PANIC escaped the oracle: {}", recs.last().map(|p| p.describe()).unwrap_or_default());
            std::process::abort();
        }
    }
}

pub fn run_target(target: &str, data: &[u8]) -> Option<Result<(), String>> {
    Some(match target {
        "wire_request" => wire_request(data),
        "wire_response" => wire_response(data),
        "router" => router(data),
        "cert_verify" => cert_verify(data),
        "inbound_stream" => inbound_stream(data),
        _ => return None,
    })
}

/// non-triviality rule per target (used to count distinct non-trivial corpus entries)
pub fn nontrivial(target: &str, data: &[u8]) -> bool {
    match target {
        "wire_request" | "wire_response" | "inbound_stream" => data.len() >= 8 && data[..8] == rw::PREAMBLE_V1,
        "cert_verify" => data.len() > 4 && data[0] == 0x30,
        _ => data.len() >= 8,
    }
}
