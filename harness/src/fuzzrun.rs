//! Engine C driver: runs a cargo-fuzz (libFuzzer) campaign for a target whose oracle lives in
//! this crate, and folds the result into the property's report.

use crate::core::*;

pub fn campaign(ctx: &mut Ctx, target: &str, runs: u64) {
    let _ = (ctx, target, runs);
}
