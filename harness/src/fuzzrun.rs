//! Engine C driver: runs a cargo-fuzz (libFuzzer) campaign for a target whose oracle lives in
//! this crate (`crate::fuzz`), and folds the result into the property's report.

use crate::core::*;
use serde_json::json;
use std::path::PathBuf;
use std::process::Command;

fn fuzz_dir() -> PathBuf {
    verif_dir().join("harness").join("fuzz")
}

fn cargo_fuzz(args: &[&str]) -> Command {
    let mut c = Command::new("cargo");
    // cargo-fuzz wants to be run from the crate that owns the `fuzz/` directory
    c.arg("+nightly").arg("fuzz").arg(args[0]);
    c.arg("--target-dir").arg(fuzz_dir().join("target"));
    c.args(&args[1..]);
    c.current_dir(verif_dir().join("harness"));
    c.env("RUSTFLAGS", "--cfg bmwill_anemo_verif");
    c.env("CARGO_NET_OFFLINE", "true");
    c
}

pub fn campaign(ctx: &mut Ctx, target: &str, runs: u64) {
    if ctx.reports.iter().any(|r| r.violation.is_some()) {
        return;
    }
    if let Ok(only) = std::env::var("VERIF_PART") {
        if only != format!("fuzz:{target}") {
            return;
        }
    }
    let name = format!("fuzz:{target}");
    let mut rep = PartReport {
        name: name.clone(),
        rule: format!("coverage-guided libFuzzer campaign (cargo-fuzz target `{target}`, -seed=VERIF_SEED, -runs={runs}, -len_control=0) on a fresh copy of a corpus generated from valid messages/certificates plus the committed regression corpus; the semantic oracle is compiled into the target; non-trivial = distinct final corpus entries that satisfy the target's rule (pass the preamble / start a DER sequence)"),
        ..Default::default()
    };
    // 1. build (ASan, debug assertions on)
    let out = cargo_fuzz(&["build", target]).output();
    match out {
        Ok(o) if o.status.success() => {}
        Ok(o) => {
            rep.inconclusive = Some(format!("cargo fuzz build {target} failed: {}", String::from_utf8_lossy(&o.stderr).lines().rev().take(8).collect::<Vec<_>>().join(" | ")));
            ctx.push_report(rep);
            return;
        }
        Err(e) => {
            rep.inconclusive = Some(format!("cargo fuzz not runnable: {e}"));
            ctx.push_report(rep);
            return;
        }
    }
    // 2. fresh corpus
    let work = verif_dir().join("out").join("fuzz").join(format!("{target}-{}", ctx.seed));
    let _ = std::fs::remove_dir_all(&work);
    let corpus = work.join("corpus");
    let artifacts = work.join("artifacts");
    std::fs::create_dir_all(&corpus).unwrap();
    std::fs::create_dir_all(&artifacts).unwrap();
    for (i, s) in crate::fuzz::seed_corpus(target).into_iter().enumerate() {
        let _ = std::fs::write(corpus.join(format!("seed-{i:03}")), s);
    }
    let regress = fuzz_dir().join("regress").join(target);
    if let Ok(rd) = std::fs::read_dir(&regress) {
        for e in rd.flatten() {
            let _ = std::fs::copy(e.path(), corpus.join(format!("regress-{}", e.file_name().to_string_lossy())));
        }
    }
    let dict = fuzz_dir().join("dict").join(if target == "cert_verify" { "der.dict" } else { "wire.dict" });
    // 3. run
    let t0 = std::time::Instant::now();
    let out = cargo_fuzz(&["run", target, corpus.to_str().unwrap(), "--"])
        .arg(format!("-seed={}", (ctx.seed % 0xffff_fffe) + 1))
        .arg(format!("-runs={runs}"))
        .arg("-len_control=0")
        .arg("-max_len=4096")
        .arg("-timeout=120")
        .arg("-rss_limit_mb=4096")
        .arg(format!("-dict={}", dict.display()))
        .arg(format!("-artifact_prefix={}/", artifacts.display()))
        .output();
    let (ok, stderr) = match out {
        Ok(o) => (o.status.success(), String::from_utf8_lossy(&o.stderr).into_owned()),
        Err(e) => (false, e.to_string()),
    };
    let execs = stderr.lines().rev().find_map(|l| l.strip_prefix("Done ").and_then(|r| r.split_whitespace().next()).and_then(|n| n.parse::<u64>().ok()));
    let cov = stderr.lines().rev().find_map(|l| l.split("cov: ").nth(1).and_then(|r| r.split_whitespace().next()).and_then(|n| n.parse::<u64>().ok()));
    rep.evaluations = execs.unwrap_or(0);
    // 4. artifacts = violations (or crashes)
    let mut crash = None;
    if let Ok(rd) = std::fs::read_dir(&artifacts) {
        for e in rd.flatten() {
            crash = Some(e.path());
            break;
        }
    }
    // distinct non-trivial = final corpus entries satisfying the rule
    if let Ok(rd) = std::fs::read_dir(&corpus) {
        for e in rd.flatten() {
            if let Ok(b) = std::fs::read(e.path()) {
                if crate::fuzz::nontrivial(target, &b) {
                    rep.nontrivial.insert(fingerprint(&b));
                    if rep.samples.len() < 3 {
                        rep.samples.push(json!({"corpus_entry_hex": hex::encode(&b[..b.len().min(96)]), "len": b.len()}));
                    }
                }
            }
        }
    }
    rep.labels.insert(format!("coverage-edges={}", cov.unwrap_or(0)), 1);
    rep.labels.insert(format!("campaign-wall-s={}", t0.elapsed().as_secs()), 1);
    // A `timeout-` / `slow-unit-` / `oom-` artifact is libFuzzer's own resource limit, not a verdict:
    // the input is re-run in-process (under the watchdog); if the oracle passes there it is counted and
    // the campaign's result stands.
    let mut resource_only = false;
    let resource_artifact = crash.as_ref().and_then(|p| p.file_name()).and_then(|n| n.to_str()).map_or(false, |n| n.starts_with("timeout-") || n.starts_with("slow-unit-") || n.starts_with("oom-"));
    if resource_artifact {
        let path = crash.clone().unwrap();
        let bytes = std::fs::read(&path).unwrap_or_default();
        if let Ok(Some(Ok(()))) | Ok(None) = std::panic::catch_unwind(|| crate::fuzz::run_target(target, &bytes)) {
            rep.labels.insert("libfuzzer-resource-limit-hit(input-passes-in-process)".into(), 1);
            crash = None;
            resource_only = true;
        }
    }
    if let Some(path) = crash {
        let bytes = std::fs::read(&path).unwrap_or_default();
        // re-run the oracle without libFuzzer to get the message (and to tell crashes from violations)
        let verdict = std::panic::catch_unwind(|| crate::fuzz::run_target(target, &bytes));
        let (key, msg) = match verdict {
            Ok(Some(Err(m))) => (m.split(':').take(2).collect::<Vec<_>>().join(":"), m),
            Ok(_) => (format!("fuzz:{target}:crash-not-reproduced-in-process"), format!("libFuzzer saved {} but the oracle passes in-process (sanitizer finding or timeout?); stderr tail: {}", path.display(), stderr.lines().rev().take(6).collect::<Vec<_>>().join(" | "))),
            Err(_) => {
                let recs = crate::panics::take_thread();
                match recs.last() {
                    Some(p) => (p.key(), p.describe()),
                    None => (format!("fuzz:{target}:panic"), "panic in target".into()),
                }
            }
        };
        rep.violation = Some(Violation { part: name.clone(), key, msg, case: json!({"bytes": hex::encode(&bytes)}) });
    } else if !ok && !resource_only {
        rep.inconclusive = Some(format!("fuzz run ended abnormally without an artifact: {}", stderr.lines().rev().take(6).collect::<Vec<_>>().join(" | ")));
    } else if execs.is_none() && !resource_only {
        rep.inconclusive = Some("could not read the number of executions from libFuzzer's output".into());
    }
    ctx.push_report(rep);
}

/// `vcheck replay` for fuzz artifacts wrapped as JSON {"bytes": hex}.
pub fn replay(target: &str, case: &serde_json::Value) -> Result<(), (String, String, u32)> {
    let bytes = case["bytes"].as_str().and_then(|s| hex::decode(s).ok()).ok_or(("replay:decode".to_string(), "no bytes".to_string(), 0))?;
    match std::panic::catch_unwind(|| crate::fuzz::run_target(target, &bytes)) {
        Ok(Some(Ok(()))) => Ok(()),
        Ok(Some(Err(m))) => Err((m.split(':').take(2).collect::<Vec<_>>().join(":"), m, 1)),
        Ok(None) => Err(("replay:unknown-target".into(), target.into(), 0)),
        Err(_) => {
            let recs = crate::panics::take_thread();
            let p = recs.last();
            Err((p.map(|p| p.key()).unwrap_or_default(), p.map(|p| p.describe()).unwrap_or_default(), 1))
        }
    }
}
