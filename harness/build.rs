fn main() {}
