//! Generates a fixed family of typed clients/servers with the CURRENT anemo-build (path
//! dependency on /repo), for C17: empty and dotted packages, route names that are prefixes of
//! each other, the same names in two services, both codecs, raw-bytes handlers.
use anemo_build::manual::{Builder, Method, Service};

const BIN: &str = "anemo::rpc::codec::BincodeCodec";
const JSON: &str = "anemo::rpc::codec::JsonCodec";

fn m(name: &str, route: &str, codec: &str, raw: bool) -> Method {
    Method::builder()
        .name(name)
        .route_name(route)
        .request_type("crate::props::c17::Msg")
        .response_type("crate::props::c17::Msg")
        .codec_path(codec)
        .server_handler_return_raw_bytes(raw)
        .build()
}

fn main() {
    println!("cargo:rerun-if-changed=build.rs");
    println!("cargo:rerun-if-changed=/repo/crates/anemo-build/src");
    let out = std::path::PathBuf::from(std::env::var("OUT_DIR").unwrap());
    // S1: no package
    let s1 = Service::builder()
        .name("Echo")
        .method(m("ping", "Ping", BIN, false))
        .method(m("ping_pong", "PingPong", BIN, false))
        .method(m("pin", "Pin", JSON, false))
        .method(m("raw", "Raw", BIN, true))
        .build();
    // S2: same service and route names under a dotted package
    let s2 = Service::builder()
        .name("Echo")
        .package("a.b")
        .method(m("ping", "Ping", JSON, false))
        .method(m("ping_pong", "PingPong", BIN, false))
        .method(m("pin", "Pin", BIN, false))
        .method(m("raw", "Raw", JSON, true))
        .build();
    // S3: single-label package, method names unrelated to route names
    let s3 = Service::builder()
        .name("Greeter")
        .package("example")
        .method(m("say_hello", "SayHello", BIN, false))
        .method(m("x", "Ping", BIN, false))
        .method(m("sayhello", "Say", JSON, false))
        .method(m("z9", "say_hello", BIN, false))
        .build();
    // S4: message types that accept JSON `null` (Option<..>): an empty payload is still not a message
    let s4 = Service::builder()
        .name("Maybe")
        .package("opt")
        .method(
            Method::builder()
                .name("maybe")
                .route_name("Maybe")
                .request_type("Option<crate::props::c17::Msg>")
                .response_type("Option<crate::props::c17::Msg>")
                .codec_path(JSON)
                .build(),
        )
        .build();
    Builder::new().out_dir(&out).compile(&[s1, s2, s3, s4]);
}
