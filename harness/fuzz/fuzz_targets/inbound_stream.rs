#![no_main]
// The oracle lives in the harness (vh::fuzz::inbound_stream); a violation aborts with its message.
libfuzzer_sys::fuzz_target!(|data: &[u8]| {
    if let Err(msg) = vh::fuzz::inbound_stream(data) {
        panic!("PROPERTY VIOLATION: {msg}");
    }
});
