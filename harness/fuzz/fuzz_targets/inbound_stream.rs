#![no_main]
// The oracle lives in the harness (vh::fuzz::inbound_stream); a violation or an escaping panic aborts.
libfuzzer_sys::fuzz_target!(|data: &[u8]| {
    vh::fuzz::guarded("inbound_stream", data);
});
