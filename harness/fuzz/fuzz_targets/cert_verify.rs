#![no_main]
// The oracle lives in the harness (vh::fuzz::cert_verify); a violation aborts with its message.
libfuzzer_sys::fuzz_target!(|data: &[u8]| {
    if let Err(msg) = vh::fuzz::cert_verify(data) {
        panic!("PROPERTY VIOLATION: {msg}");
    }
});
