#![no_main]
// The oracle lives in the harness (vh::fuzz::router); a violation or an escaping panic aborts.
libfuzzer_sys::fuzz_target!(|data: &[u8]| {
    vh::fuzz::guarded("router", data);
});
