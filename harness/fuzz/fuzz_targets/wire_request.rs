#![no_main]
// The oracle lives in the harness (vh::fuzz::wire_request); a violation aborts with its message.
libfuzzer_sys::fuzz_target!(|data: &[u8]| {
    if let Err(msg) = vh::fuzz::wire_request(data) {
        panic!("PROPERTY VIOLATION: {msg}");
    }
});
