#![no_main]
// The oracle lives in the harness (vh::fuzz::wire_request); a violation or an escaping panic aborts.
libfuzzer_sys::fuzz_target!(|data: &[u8]| {
    vh::fuzz::guarded("wire_request", data);
});
