#![no_main]
// The oracle lives in the harness (vh::fuzz::wire_response); a violation or an escaping panic aborts.
libfuzzer_sys::fuzz_target!(|data: &[u8]| {
    vh::fuzz::guarded("wire_response", data);
});
