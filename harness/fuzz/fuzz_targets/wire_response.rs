#![no_main]
// The oracle lives in the harness (vh::fuzz::wire_response); a violation aborts with its message.
libfuzzer_sys::fuzz_target!(|data: &[u8]| {
    if let Err(msg) = vh::fuzz::wire_response(data) {
        panic!("PROPERTY VIOLATION: {msg}");
    }
});
