#!/bin/bash
# runs every thorough tier once, sequentially; log in out/thorough.log
cd /verif
for id in C07 C16 C01 C06 C02 C03 C04 C05 C08 C09 C10 C11 C12 C13 C14 C15 C17 C18 C19 C20; do
  s=$(date +%s)
  ./check $id thorough 2>&1 | grep -v "^proptest\|^KNOWN" | tail -3
  echo "== $id took $(( $(date +%s) - s )) s"
done
