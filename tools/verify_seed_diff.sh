#!/bin/bash
# tools/verify_seed_diff.sh <ID> <i> <cargo test args...>  -- demo delivered as demo<i>/demo.diff
set -u
id="$1"; i="$2"; shift 2
wt=/tmp/wt-$id; export CARGO_TARGET_DIR=$wt/target RUST_BACKTRACE=0
cd $wt || exit 3
git reset -q; git checkout -q -- . && git clean -fdq -e target
git apply /tmp/seed-$id/demo$i/demo.diff || exit 3
echo "--- demo WITHOUT change"; cargo test --offline "$@" 2>&1 | grep -E "^test result|^error" | head -5
git apply /tmp/seed-$id/patch$i.diff || exit 3
echo "--- demo WITH change"; cargo test --offline "$@" 2>&1 | grep -E "^test result|^error" | head -5
git reset -q; git checkout -q -- . && git clean -fdq -e target
git apply /tmp/seed-$id/patch$i.diff
echo "--- existing suite WITH change"; cargo test --workspace --no-fail-fast --offline 2>&1 | grep -E "^test result" | awk '{p+=$4; f+=$6} END {print "passed="p" failed="f}'
git reset -q; git checkout -q -- . && git clean -fdq -e target
