#!/usr/bin/env python3
"""tools/keep_seed.py <PROP> <i> <slug> <detected: yes|no|partial> <check result text>  -- file a confirmed seeded change under /verif/seeded/"""
import sys, os, shutil, json
prop, i, slug, detected, result = sys.argv[1:6]
src = f"/tmp/seed-{prop}"
dst = f"/verif/seeded/{prop}-{slug}"
os.makedirs(dst, exist_ok=True)
shutil.copy(f"{src}/patch{i}.diff", f"{dst}/patch.diff")
if os.path.isdir(f"{dst}/demo"): shutil.rmtree(f"{dst}/demo")
shutil.copytree(f"{src}/demo{i}", f"{dst}/demo")
meta_txt = open(f"{src}/meta{i}.txt").read() if os.path.exists(f"{src}/meta{i}.txt") else ""
meta = {
  "property": prop,
  "source": "independent sub-agent given only the property text and a scratch worktree",
  "breaks_and_needs": meta_txt.strip(),
  "confirmed_by_me": "in the scratch worktree: existing suite (cargo test --workspace --no-fail-fast --offline) passes with the change; the demonstration fails with the change and passes without it (tools/verify_seed.sh)",
  "check_run": f"tools/try_patch.sh seeded/{prop}-{slug}/patch.diff {prop} quick",
  "detected_by_quick_check": detected,
  "check_result": result,
}
json.dump(meta, open(f"{dst}/meta.json", "w"), indent=1)
print("kept", dst)
