#!/bin/bash
# tools/recheck_seeds.sh -- every filed seeded change against the current checks: must be detected (exit 1)
cd /verif
: > out/recheck.log
for d in seeded/*/; do
  name=$(basename $d); prop=${name%%-*}
  case $name in C12-r2-inflight-limiter-forgets-permit|C12-r4-inflight-limiter-counter-not-raii) prop=C18;; esac
  # recorded as not detected (reasons in their meta.json and in DESIGN.md §14)
  case $name in C09-r5-handler-panic-logged-not-raised|C09-r5-removal-waits-for-blocking-handlers) echo "$name check=$prop (recorded as not detected)" >> out/recheck.log; continue;; esac
  if ! git -C /repo diff --quiet; then echo "/repo dirty"; exit 3; fi
  git -C /repo apply /verif/${d}patch.diff || { echo "SKIP $name (patch does not apply)" >> out/recheck.log; continue; }
  ./check $prop quick > out/recheck-run.log 2>&1; rc=$?
  git -C /repo checkout -- . && git -C /repo clean -fdq -e target
  key=$(grep "violation detail" out/recheck-run.log | head -1 | sed 's/.*key=\([^ ]*\).*/\1/')
  echo "$name check=$prop exit=$rc $key" >> out/recheck.log
done
echo finished >> out/recheck.log
