#!/bin/bash
# tools/save_regressions.sh  -- for every seeded change: apply it, run the property's quick check, keep the shrunk
# failing case as a committed regression case under replays/<PROP>/<part>/<slug>.json, undo the change.
cd /verif
for d in seeded/*/; do
  name=$(basename $d); prop=${name%%-*}; slug=${name#*-}
  if ls replays/$prop/*/$slug.json >/dev/null 2>&1 && [ -z "${FORCE:-}" ]; then continue; fi
  if ! git -C /repo diff --quiet; then echo "/repo dirty"; exit 3; fi
  git -C /repo apply /verif/${d}patch.diff || { echo "SKIP $name (patch does not apply)"; continue; }
  rm -f out/replay/$prop-*.json
  ./check $prop quick > out/regress-$name.log 2>&1; rc=$?
  git -C /repo checkout -- . && git -C /repo clean -fdq -e target
  f=$(ls out/replay/$prop-*.json 2>/dev/null | head -1)
  if [ $rc -eq 1 ] && [ -n "$f" ]; then
    part=$(python3 -c "import json,sys; print(json.load(open('$f'))['part'])")
    mkdir -p replays/$prop/$part
    cp $f replays/$prop/$part/$slug.json
    echo "OK   $name -> replays/$prop/$part/$slug.json"
  else
    echo "MISS $name (exit $rc)"
  fi
done
