#!/usr/bin/env python3
"""tools/verify_seed_auto.py <ID>  -- confirm all changes a sub-agent delivered under /tmp/seed-<ID> in its worktree /tmp/wt-<ID>:
works out from each demo's README whether it is a test file (and for which crate) or a demo.diff (and which cargo test arguments)."""
import sys, os, re, glob, subprocess
pid = sys.argv[1]
src = f"/tmp/seed-{pid}"
i = 1
while os.path.exists(f"{src}/patch{i}.diff"):
    demo = f"{src}/demo{i}"
    readme = ""
    for f in glob.glob(f"{demo}/README*"):
        readme += open(f).read()
    print(f"=== {pid} {i}", flush=True)
    if os.path.exists(f"{demo}/demo.diff"):
        m = re.search(r"cargo test ([^\n#]*)", readme)
        args = (m.group(1) if m else "-p anemo --lib").replace("--offline", "").split()
        subprocess.run(["/verif/tools/verify_seed_diff.sh", pid, str(i)] + args)
    else:
        rs = sorted(glob.glob(f"{demo}/*.rs"))
        if not rs:
            print("no demo found"); i += 1; continue
        m = re.search(r"crates/([a-z\-]+)/tests", readme)
        crate = m.group(1) if m else "anemo"
        for f in rs[:1]:
            subprocess.run(["/verif/tools/verify_seed.sh", pid, str(i), f, crate, os.path.basename(f)[:-3]])
    i += 1
