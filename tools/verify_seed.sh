#!/bin/bash
# tools/verify_seed.sh <ID> <i> <demo test file> <crate> <test name>   -- confirm a sub-agent's seeded change in its scratch worktree
set -u
id="$1"; i="$2"; demo="$3"; crate="$4"; tname="$5"
wt=/tmp/wt-$id; export CARGO_TARGET_DIR=$wt/target
cd $wt || exit 3
git checkout -q -- . && git clean -fdq -e target
mkdir -p crates/$crate/tests && cp "$demo" crates/$crate/tests/$tname.rs
# helper modules shipped next to the test (sub-directories of any demo dir of this seed set)
for d in /tmp/seed-$id/demo*/*/; do [ -d "$d" ] && cp -r "$d" crates/$crate/tests/; done
echo "--- demo WITHOUT change"; cargo test -p $crate --offline --test $tname 2>&1 | grep -E "^test result|error(\[|:)" | head -5
git apply /tmp/seed-$id/patch$i.diff || exit 3
echo "--- demo WITH change"; cargo test -p $crate --offline --test $tname 2>&1 | grep -E "^test result|error(\[|:)" | head -5
rm crates/$crate/tests/$tname.rs
echo "--- existing suite WITH change"; cargo test --workspace --no-fail-fast --offline 2>&1 | grep -E "^test result|FAILED|failed" | awk '{p+=$4; f+=$6} END {print "passed="p" failed="f}'
git checkout -q -- . && git clean -fdq -e target
