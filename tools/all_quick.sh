#!/bin/bash
# tools/all_quick.sh [seed] -- every quick check on the current /repo tree; summary in out/quick-<seed>.log
cd /verif
seed=${1:-}
[ -n "$seed" ] && export VERIF_SEED=$seed
log=out/quick-${seed:-default}.log
: > $log
for i in $(seq -w 1 20); do
  s=$(date +%s)
  ./check C$i quick > out/quick-C$i.log 2>&1; rc=$?
  echo "C$i exit=$rc $(( $(date +%s) - s ))s $(grep -c '^KNOWN-FINDING' out/quick-C$i.log) known $(grep '^VIOLATION' out/quick-C$i.log | head -1)" >> $log
done
