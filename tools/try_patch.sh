#!/bin/bash
# tools/try_patch.sh <patch.diff> <ID> [quick|thorough]  -- apply a seeded change to /repo, run a check, undo it
set -u
patch="$1"; id="$2"; tier="${3:-quick}"
cd /verif
if ! git -C /repo diff --quiet; then echo "/repo has uncommitted changes; refusing"; exit 3; fi
git -C /repo apply "$(realpath "$patch")" || { echo "patch does not apply"; exit 3; }
./check "$id" "$tier" 2>&1 | tail -n 6
rc=${PIPESTATUS[0]}
git -C /repo checkout -- . && git -C /repo clean -fdq -e target
echo "try_patch: exit=$rc"
exit $rc
