#!/bin/bash
# tools/file_seed.sh <ID> <i> <slug> [check-ID]  -- run the quick check against a confirmed change delivered in /tmp/seed-<ID>,
# file it under seeded/ with the result and keep the shrunk failing case as a regression case under replays/
set -u
id="$1"; i="$2"; slug="$3"; chk="${4:-$1}"
cd /verif
rm -f out/replay/$chk-*.json
out=$(tools/try_patch.sh /tmp/seed-$id/patch$i.diff $chk 2>&1)
rc=$(echo "$out" | sed -n 's/^try_patch: exit=//p')
detail=$(echo "$out" | grep -m1 'violation detail' | cut -c1-300)
f=$(ls out/replay/$chk-*.json 2>/dev/null | head -1)
if [ "$rc" = 1 ] && [ -n "$f" ]; then
  part=$(python3 -c "import json; print(json.load(open('$f'))['part'])")
  python3 tools/keep_seed.py $id $i $slug yes "$detail"
  mkdir -p replays/$chk/$part && cp $f replays/$chk/$part/$slug.json
  echo "DETECTED $id $i $slug: $detail"
else
  echo "MISSED $id $i $slug (exit $rc)"; echo "$out" | tail -4
fi
