use anemo::{Network, Request, Response, Router};
use bytes::Bytes;
use std::convert::Infallible;
fn net() -> Network {
    let svc = tower::service_fn(|r: Request<Bytes>| async move { Ok::<_, Infallible>(Response::new(r.into_body())) });
    Network::bind("127.0.0.1:0").private_key(rand::random::<[u8; 32]>()).server_name("t").start(Router::new().route("/x", svc)).unwrap()
}
#[tokio::test]
async fn address_rebindable_after_shutdown_with_held_peer_handle() {
    let a = net();
    let b = net();
    let addr = a.local_addr();
    let pb = a.connect(b.local_addr()).await.unwrap();
    let handle = a.peer(pb).unwrap();
    a.shutdown().await.unwrap();
    let first = std::net::UdpSocket::bind(addr).map(|_| ());
    drop(handle);
    tokio::time::sleep(std::time::Duration::from_millis(50)).await;
    let second = std::net::UdpSocket::bind(addr).map(|_| ());
    println!("RESULT bind while the Peer handle is held: {first:?}; after dropping it: {second:?}");
}
