#!/bin/bash
# Offline build of the harness (and of /repo with hooks on) from files on disk only.
set -eu
cd "$(dirname "${BASH_SOURCE[0]}")/harness"
export CARGO_NET_OFFLINE=true
cargo build --release --offline
