#!/usr/bin/env python3
"""Regenerates MANIFEST.json from the table below (keeps it schema-valid)."""
import json, subprocess, sys

HOOK_COMMITS = subprocess.run(
    ["git", "-C", "/repo", "log", "--format=%H %s", "--grep=^verif hook"],
    capture_output=True, text=True).stdout.strip().splitlines()

CHECKS = {
 "C07": dict(
   engine="proptest+libfuzzer",
   technique="property-based testing: round-trip + differential against a hand-written reference codec, exhaustive enumeration of small sub-spaces; coverage-guided fuzzing of the decoders in the thorough tier",
   text="Generated messages and byte strings against an independent reference encoder/decoder; versions, status codes and preamble bytes enumerated completely. Exploration: it samples the message space, it does not prove the codec.",
   note="Trusted: the hand-written reference codec (refmodel::wire) as layout authority, in-memory AsyncRead/AsyncWrite standing in for QUIC streams.",
   design="§4 C07"),
}

PENDING_REASON = "check not built yet in this session (design in DESIGN.md §4); not claimed until it runs clean on the unchanged tree"
ALL = ["C%02d" % i for i in range(1, 21)]

def main():
    checks = []
    for pid in ALL:
        if pid not in CHECKS:
            continue
        c = CHECKS[pid]
        checks.append({
            "property_id": pid,
            "quick_cmd": f"./check {pid} quick",
            "thorough_cmd": f"./check {pid} thorough",
            "evidence_file": f"/verif/evidence/{pid}.json",
            "replay_cmd_template": "./check replay {path}",
            "engine": c["engine"],
            "level_claimed": {"category": c.get("level", "exploration"), "text": c["text"], "design_ref": c["design"]},
            "level_note": c["note"],
            "technique": c["technique"],
        })
    manifest = {
        "version": 1,
        "setup_cmd": "./setup.sh",
        "hooks": {
            "guard": "bmwill_anemo_verif",
            "enable": "RUSTFLAGS/--cfg bmwill_anemo_verif set in /verif/harness/.cargo/config.toml (and exported by the fuzz wrapper); /repo crates are path dependencies of the harness, so every check rebuilds the current working tree with the hooks on",
            "baseline_off_cmd": "cd /repo && cargo test --workspace --no-fail-fast --offline",
            "source_commits": [l.split()[0] for l in HOOK_COMMITS],
            "add_only": True,
        },
        "engines": [
            {"name": "simnet", "path": "harness/src/simnet", "serves_properties": [], "kind_free_text": "whole anemo networks on an in-memory datagram fabric under tokio's paused clock; proptest-generated scenarios, faults and schedules"},
            {"name": "proptest", "path": "harness/src/core.rs", "serves_properties": [], "kind_free_text": "sharded proptest driver with labels, distinct-non-trivial counting, shrinking to replay files"},
            {"name": "libfuzzer", "path": "fuzz", "serves_properties": [], "kind_free_text": "cargo-fuzz targets sharing the harness oracles (thorough tiers)"},
        ],
        "checks": checks,
        "notes": "All checks: exit 0 held / 1 VIOLATION / 2 inconclusive (build failure, simulator livelock, generator-health gate). Known findings are listed in known_findings.json and printed as KNOWN-FINDING lines.",
        "not_applicable": [{"property_id": p, "reason": PENDING_REASON} for p in ALL if p not in CHECKS],
    }
    json.dump(manifest, open("/verif/MANIFEST.json", "w"), indent=1)
    try:
        import jsonschema
        jsonschema.validate(manifest, json.load(open("/root/.vp/MANIFEST.schema.json")))
        print("MANIFEST.json valid;", len(checks), "checks")
    except ImportError:
        print("written (jsonschema not importable here)")

main()
