#!/usr/bin/env python3
"""Regenerates MANIFEST.json from the table below (keeps it schema-valid)."""
import json, subprocess, sys

HOOK_COMMITS = subprocess.run(
    ["git", "-C", "/repo", "log", "--format=%H %s", "--grep=^verif hook"],
    capture_output=True, text=True).stdout.strip().splitlines()

CHECKS = {
 "C01": dict(
   engine="proptest+simnet+libfuzzer",
   technique="property-based testing with an adversary model: generated/forged/mutated certificates and handshake signatures against an independent x509-parser+ring acceptance predicate (exhaustive single-byte mutations), and generated adversarial handshakes by a raw QUIC endpoint on the simulated network; invariant over everything the victim attributes",
   text="Every single-byte mutation of valid certificates is enumerated; forged chains, wrong keys, schemes and SNI are generated and driven through real handshakes in both roles. The oracle is one-directional (accept => reference accepts and identity == proven key). Exploration; TLS state-machine deviations are out of reach.",
   note="Trusted: rustls TLS 1.3 state machine, webpki, ring; the adversary is limited to what stock rustls lets a party send (any chain, any signature bytes, any scheme label, any SNI).",
   design="§4 C01"),
 "C02": dict(
   engine="simnet+proptest",
   technique="property-based testing on a simulated network: generated concurrent RPC traffic, frame limits and datagram fault scripts; oracle = pure response function F of the request + handler log (round-trip / at-most-once invariants)",
   text="Whole networks run on an in-memory fabric under a paused clock, so content, sizes, concurrency, completion order and datagram loss/reorder/duplication are generated dimensions. Exploration; errors are allowed outcomes under faults.",
   note="Trusted: tokio paused clock, the fabric, quinn/rustls below anemo. Health gate: fault-free cases with <99% success are inconclusive.",
   design="§4 C02"),
 "C03": dict(
   engine="simnet+proptest",
   technique="property-based testing on a simulated network with an impostor: generated address->identity assignments, pinned/unpinned concurrent dials and handshake-phase loss; invariants over dial results, listings, events and served requests",
   text="Honest networks plus a raw-QUIC impostor replaying certificates; concurrency of dials and loss bursts are generated. Oracle is one-directional where the statement is (Ok => ...), Err always allowed under loss. Exploration.",
   note="Trusted: fabric + paused clock, rustls/quinn. Self-dials are included (the party reached is the dialer itself).",
   design="§4 C03"),
 "C04": dict(
   engine="proptest+simnet (+ real threads)",
   technique="property-based testing: model-based histories on the active-peer set driven directly with real quinn connections (reference peer-set model + change-log replay), generated network-level histories with crash/restart and partitions (model-free change-log invariants after every step), and a real-thread stress of concurrent subscribe/list against one mutator",
   text="Histories are generated and checked after every step against an independent model of the set and its event log; the thread-stress part samples real interleavings and says so. Exploration.",
   note="Trusted: fabric + paused clock, tokio broadcast. Thread stress is statistical (not a pure function of the seed). Which connection survives a crash/restart race is left open by the statement, so network-level checks are model-free.",
   design="§4 C04"),
 "C05": dict(
   engine="proptest+simnet (+ real-time part)",
   technique="property-based testing: generated identity pairs x all four arrival-order combinations (enumerated) at decision level; generated registration/close-notice schedules on both sides with real connections; generated simultaneous dials on the simulated network with asymmetric delays, offsets, loss and background dialing; a small real-time part for wall-clock-dependent logic",
   text="Arrival orders are enumerated where the space is four; schedules, delays and offsets are generated elsewhere. The oracle is the converged end state after a dynamically detected quiet window plus three further idle timeouts without events. Exploration.",
   note="Trusted: fabric + paused clock. Cases where a dial returns Err are discarded (counted). The real-time part costs wall-clock seconds and is statistical; the close-notice-race part uses two OS threads with a swept start skew (interleavings sampled). A dial that returns Err is accepted, but without injected loss the pair must still converge.",
   design="§4 C05"),
 "C06": dict(
   engine="simnet+proptest+libfuzzer",
   technique="property-based testing with a hostile-peer model on a simulated network: generated scripts of malformed/truncated/oversized streams, stream-level misbehaviour, hostile responses and abrupt closes by a raw QUIC endpoint, interleaved with honest traffic; oracle = no panic, network alive, honest and well-formed RPCs return exactly F(request); in-process fuzz target for the per-stream path in the thorough tier",
   text="The adversary holds a valid identity and speaks raw QUIC, so every byte and stream operation is its choice; honest traffic runs alongside and is checked byte for byte. Exploration of scripts up to 25 actions.",
   note="Trusted: fabric + paused clock. Resource exhaustion is outside the statement. The recorder caps response sizes a garbled control block can request (harness self-protection).",
   design="§4 C06"),
 "C07": dict(
   engine="proptest+libfuzzer",
   technique="property-based testing: round-trip + differential against a hand-written reference codec, exhaustive enumeration of small sub-spaces; coverage-guided fuzzing of the decoders in the thorough tier",
   text="Generated messages and byte strings against an independent reference encoder/decoder; versions, status codes and preamble bytes enumerated completely. Exploration: it samples the message space, it does not prove the codec.",
   note="Trusted: the hand-written reference codec (refmodel::wire) as layout authority, in-memory AsyncRead/AsyncWrite standing in for QUIC streams (also delivering in generated pieces, and sinks that fail or stall). A case that kills the process (allocation abort) is reported through the crash handler.",
   design="§4 C07"),
 "C08": dict(
   engine="simnet+proptest + child-process racer",
   level="fault_enumeration",
   technique="property-based testing: generated mixes of in-flight work at the shutdown instant on the simulated network (virtual-time bounds, resource and event oracles) with the runtime dropped at enumerated packet-event times of a reference run; plus a schedule-fuzzing racer that pre-empts one worker thread at generated poll points (tracing subscriber) while a multi-thread runtime is torn down in child processes; plus generated handler behaviours (synchronous stretches, block_in_place, yield loops) in flight at shutdown() on a real multi-thread runtime with a reference-count oracle at the instant shutdown() returns",
   text="Crash points are enumerated at packet-event granularity per generated scenario (virtual time); multi-thread teardown races are sampled by the racer, which owns the pre-emption point but not the whole schedule. Four teardown defects found by it were repaired by fix: commits and would be reported again.",
   note="Trusted: fabric + paused clock for part A. Racer: real threads and real loopback UDP, statistical replay (10 runs), a slow child is inconclusive; the only hook it reads is the accept-None counter (H3). busy-handlers: real threads and loopback UDP in-process; which handlers are inside a synchronous stretch at the shutdown call is computed from generated durations and the measured delay; steps slower than 20 s are inconclusive. Known finding F8 (address stays bound while the application holds a Peer handle) is attributed only when dropping the handles frees the address; the case then continues.",
   design="§4 C08, §3.5"),
 "C09": dict(
   engine="simnet+proptest",
   technique="property-based testing on a simulated network: generated histories of dials, disconnects, graceful restarts, crashes and (one-directional) partitions; invariant over sampled views (bounded one-sided period), mutual views and RPC reachability after a fault-free tail, and the disconnect contract",
   text="Views are sampled every 100 ms of virtual time, so 'eventually' becomes the bounded deadlines the statement names. Two transport-level causes of over-long one-sided periods (idle-timer restart on send; 3xPTO floor with inflated RTT) are known findings, attributed from the stale connection's own counters; anything else is a violation. Exploration.",
   note="Trusted: fabric + paused clock. Idle timeouts below 3.5 s are not generated (QUIC floors the idle period at 3 PTO). Slack 500 ms.",
   design="§4 C09"),
 "C10": dict(
   engine="simnet+proptest",
   technique="property-based testing: model-based operation histories (arrivals, explicit dials, disconnects, affinity-table mutations, background dials) against an admission reference model written from the documentation; listing compared with the model after every settled step",
   text="The limit, the affinity table and the history are generated; the reference model decides every arrival and the listener's listing must equal it after each step, so drift in counting is visible. Exploration of histories up to 15 steps.",
   note="Trusted: fabric + paused clock. Arrivals are non-overlapping as the statement requires; arrivals of peers being dialed in the background and explicit dials to Never peers are excluded by construction.",
   design="§4 C10"),
 "C11": dict(
   engine="simnet+proptest",
   technique="property-based testing in virtual time: generated default timeouts on both ends x timeout-header grammar x handler durations; oracle = independent min-over-optional deadline model predicting outcome and completion time",
   text="End-to-end through Network (never the bare layer) so un-wired configuration is visible; timing oracles are exact in virtual time with a boundary band of 2x link delay. Exploration.",
   note="Trusted: tokio paused clock (1 ms timer granularity inside the tolerance). '+'-prefixed headers not generated.",
   design="§4 C11"),
 "C12": dict(
   engine="simnet+proptest",
   level="fault_enumeration",
   technique="property-based testing with enumerated abandon points: generated RPC shapes, the call is abandoned at every packet-event time of a reference run; generated long histories of abandoned calls beyond the stream limit; oracle = handler start/drop/finish log, service-clone count, sibling/fresh-RPC round trips",
   text="The deciding dimension is the abandon instant, enumerated at packet-event granularity per generated shape (thinned above 64 points); histories exceed the concurrent-stream limit; services with backpressure are generated too.",
   note="Trusted: fabric + paused clock; 'promptly' = within 1 virtual second. Between two fabric events nothing observable changes for the remote peer.",
   design="§4 C12"),
 "C13": dict(
   engine="simnet+proptest",
   technique="property-based testing over long virtual-time schedules: generated known-peer tables, timing configurations and target start/stop/kick schedules; trace predicates (eligibility, rotation, minimum spacing, bounded time-to-connect, in-flight cap) over the fabric's black-box log of new connection attempts and the dialer's events; plus generated failure sequences against the backoff bookkeeping",
   text="Hours of virtual time cost nothing, so backoff and rotation are observed over whole failure streaks; predicates rather than a lock-step model keep the oracle independent of hash-map order. Lower bounds are exact, upper bounds carry stated slack. Exploration.",
   note="Trusted: fabric + paused clock; tick jitter pinned to 0 through hook H2. Attempt durations used by the predicates are lower bounds (a running or closing target answers at once; only a fully absent one costs the connect timeout). Upper-bound clauses are only claimed when the in-flight cap cannot be binding.",
   design="§4 C13"),
 "C14": dict(
   engine="simnet+proptest",
   technique="exhaustive configuration grid over a small name alphabet on the simulated network + property-based adversarial SNI/certificate-name combinations (raw QUIC endpoint) + verifier-level generated name sets; oracle computed from the configuration alone and an x509 reference",
   text="All (primary, optional alternate) configurations over six related names are enumerated for dialer x listener; SNI and certificate names of an adversarial dialer / impostor listener are generated independently. Exploration outside the enumerated grid.",
   note="Trusted: webpki name matching below the anemo verifiers; completeness ('matching names connect') is only claimed for the plain grid names.",
   design="§4 C14"),
 "C15": dict(
   engine="simnet+proptest",
   technique="property-based testing: sizes within +-3 bytes of generated limits enumerated for each of the four frames and four limit placements, at codec level (in-memory) and network level (simnet); frame sizes from the reference codec; default-config sizes around 8 MiB",
   text="Boundary sizes are enumerated around every generated limit; the oracle is the independent size computation plus intact round trip, bounded virtual return time and a follow-up RPC. Exploration over limits; known finding F4 (8 MiB default cap) is reported as KNOWN-FINDING.",
   note="Trusted: refmodel::wire for frame sizes, fabric + paused clock. Limits of 0-20 bytes are covered by a separate part (0 is a configured value, not 'unset'); sizes are what goes on the wire, including headers added by the caller's own outbound middleware.",
   design="§4 C15"),
 "C16": dict(
   engine="proptest+simnet+libfuzzer",
   technique="property-based testing: generated route tables (route/add_rpc_service/route_layer/nested merge) and probe strings against a string-comparison reference matcher with layer bookkeeping; invocation counters as oracle; the same question asked over the simulated network with the generated rpc servers mounted (odd route strings sent by a peer)",
   text="Generated tables and route strings; the oracle is an independent exact/prefix matcher plus per-service invocation counters and per-layer tags. Exploration of an unbounded table/string space.",
   note="Trusted: refmodel::routes (written from the statement). Patterns limited to the kinds the statement names; ':param' patterns not generated.",
   design="§4 C16"),
 "C17": dict(
   engine="proptest (+simnet)",
   technique="property-based testing: random service definitions through the code generators with the output parsed by syn and compared with the route formula (differential client vs server vs router prefix); generated typed calls, planned handler results, undecodable payloads and hostile responses against a family of services compiled from the current anemo-build by the harness build script",
   text="Generated definitions are checked at token level (client route literal == server match arm == '/'+SERVICE_NAME+'/'+route); behaviour is checked on a compiled family covering empty/dotted packages, prefix route names, both codecs and raw-bytes handlers, in-process and over the simulated network. Exploration.",
   note="Trusted: syn for parsing the generators' output, bincode/serde_json to decide whether generated garbage happens to decode. Random definitions are not compiled.",
   design="§4 C17"),
 "C18": dict(
   engine="proptest",
   technique="property-based testing: model-based operation histories (arrive/poll/release/cancel) with hand-polled futures, per-peer running-set model as oracle",
   text="The harness owns every poll, so request interleavings are generated, not sampled; the model is the per-peer running set. Exploration of histories up to 60 operations.",
   note="Trusted: tokio Semaphore, dashmap. Inner service is an instrumented stub with a per-peer gauge that counts a request from the moment call() is entered; a tokio context is present; parts many-peers (up to 3000 earlier peers) and cancel-storm (up to 1500 cancelled waiters) cover long lifetimes; first-contact-race uses real threads (sampled interleavings).",
   design="§4 C18"),
 "C19": dict(
   engine="proptest (real clock)",
   technique="property-based testing: generated request scripts in real time, GCRA envelope invariant over every window of bracketed admissions, metamorphic hint probe (wait the hinted time => admitted)",
   text="Generated quotas and scripts run in real time because governor's clock is not injectable; admissions are bracketed on one monotonic clock so the envelope check is conservative. Exploration; not a pure function of the seed.",
   note="Trusted: std monotonic clock, tokio timers. Scheduling noise only widens brackets (fewer detections, no false alarms); every refusal must carry wait-nanos >= 1 (F7, fixed in /repo 1ab4be0; the hint-race part hammers sub-millisecond quotas). The two-peers-blocked-at-once oracle compares admission ORDER, not durations.",
   design="§4 C19"),
 "C20": dict(
   engine="proptest",
   technique="property-based testing: generated allow-lists / custom authorizers and call histories through clones with hand-polled futures; invocation log + exact response comparison as oracle",
   text="All 64 allow-lists over a 6-id universe are reachable; custom authorizers derive verdict and refusal response from the request, so 'exactly the authorizer's response' is checked byte for byte. Exploration of histories.",
   note="An invocation of the wrapped service is its call(); trusted: nothing beyond std/tower.",
   design="§4 C20"),
}

PENDING_REASON = "check not built yet in this session (design in DESIGN.md §4); not claimed until it runs clean on the unchanged tree"
ALL = ["C%02d" % i for i in range(1, 21)]

def main():
    checks = []
    for pid in ALL:
        if pid not in CHECKS:
            continue
        c = CHECKS[pid]
        checks.append({
            "property_id": pid,
            "quick_cmd": f"./check {pid} quick",
            "thorough_cmd": f"./check {pid} thorough",
            "evidence_file": f"/verif/evidence/{pid}.json",
            "replay_cmd_template": "./check replay {path}",
            "engine": c["engine"],
            "level_claimed": {"category": c.get("level", "exploration"), "text": c["text"], "design_ref": c["design"]},
            "level_note": c["note"],
            "technique": c["technique"],
        })
    manifest = {
        "version": 1,
        "setup_cmd": "./setup.sh",
        "hooks": {
            "guard": "bmwill_anemo_verif",
            "enable": "RUSTFLAGS/--cfg bmwill_anemo_verif set in /verif/harness/.cargo/config.toml (and exported by the fuzz wrapper); /repo crates are path dependencies of the harness, so every check rebuilds the current working tree with the hooks on",
            "baseline_off_cmd": "cd /repo && cargo test --workspace --no-fail-fast --offline",
            "source_commits": [l.split()[0] for l in HOOK_COMMITS],
            "add_only": True,
        },
        "engines": [
            {"name": "simnet", "path": "harness/src/simnet", "serves_properties": ["C01","C02","C03","C04","C05","C06","C08","C09","C10","C11","C12","C13","C14","C15","C17"], "kind_free_text": "whole anemo networks on an in-memory datagram fabric under tokio's paused clock; proptest-generated scenarios, faults and schedules"},
            {"name": "proptest", "path": "harness/src/core.rs", "serves_properties": ALL, "kind_free_text": "sharded proptest driver with labels, distinct-non-trivial counting, shrinking to replay files"},
            {"name": "teardown-racer", "path": "harness/src/props/c08_racer.rs", "serves_properties": ["C08"], "kind_free_text": "child processes on a multi-thread runtime; a tracing subscriber pre-empts one worker at generated poll points while the runtime is torn down"},
            {"name": "busy-handlers", "path": "harness/src/props/c08_busy.rs", "serves_properties": ["C08"], "kind_free_text": "real networks on a real multi-thread runtime with handlers that are running (not parked) when shutdown() is called"},
            {"name": "libfuzzer", "path": "harness/fuzz", "serves_properties": ["C01","C06","C07","C16"], "kind_free_text": "cargo-fuzz targets sharing the harness oracles (thorough tiers)"},
        ],
        "checks": checks,
        "notes": "Fix commits in /repo (see known_findings.json, status fixed): ed9e037, 4652d7a, d4b9ef4, 1928b31. All checks: exit 0 held / 1 VIOLATION / 2 inconclusive (build failure, simulator livelock, generator-health gate). Known findings are listed in known_findings.json and printed as KNOWN-FINDING lines.",
        "not_applicable": [{"property_id": p, "reason": PENDING_REASON} for p in ALL if p not in CHECKS],
    }
    json.dump(manifest, open("/verif/MANIFEST.json", "w"), indent=1)
    try:
        import jsonschema
        jsonschema.validate(manifest, json.load(open("/root/.vp/MANIFEST.schema.json")))
        print("MANIFEST.json valid;", len(checks), "checks")
    except ImportError:
        print("written (jsonschema not importable here)")

main()
